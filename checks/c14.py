"""
C14 - malformed docstrings are contained: bad syntax never crashes collection.

All strings of up to N fragments from a grammar of prompt pieces, brackets, quotes, backslashes, directive
pieces, control characters and keywords are fed to (1) DoctestParser().parse, (2) core.parse_docstr_examples
under the three styles and (3) - embedded as the middle docstring of a 3-function module -
core.parse_doctestables; every outcome other than "parts" / "the library's own parse error" / "no example +
warning" is a violation, and so is a hang.
"""
import io
import os
import sys
import time
import itertools
import warnings
import contextlib

from xmc.core import Spec
from models import harness

LEVEL = 'exploration'

FR = ['>>> ', '... ', '>>>', '...', '\n', '    ', 'x = 1', '(', ')', '[', ']', "'", '"""', "'''", '\\',
      '# xdoctest: +SKIP', '# xdoctest: +REQUIRES(', '# xdoctest: +REQUIRES(--x)', '# doctest: +FOO', '\x00', '\x0c',
      '\r', '\t', 'def f():', 'return', 'if x:', 'else:', 'print(1)', ';', ':', 'lambda', 'Example:', 'want', '@',
      '\xe9', 'await', 'class A:', '{', '}', ',', '#',
      # directive prefixes in other spellings, unbalanced either way; a google block header with its indentation
      '# XDOCTEST: +SKIP)', '# Doctest: +REQUIRES(', '# xdoc: +SKIP(', 'Example:\n    ', 'Doctest:\n    >>> ',
      # whitespace that str.strip() removes but that is neither a blank nor a line break for splitlines()
      '\x1f', '\xa0',
      # google section headers written with blanks before the colon / with a double colon (both are recognised headers)
      'Example :\n    ', 'Returns :\n    x\n', 'Example ::\n    >>> ',
      # a compound statement whose suite holds nothing but a comment
      '>>> if x:\n...     # todo\n', '>>> def f():\n>>>     # todo\n']
# the fragments that carry the grammar of doctests (prompts, continuation, brackets, quotes, a directive, a block header):
# deep strings are enumerated over these only
CORE = ['>>> ', '... ', '>>>', '...', '\n', '    ', 'x = 1', '(', ')', "'", '"""', '\\', '# xdoctest: +SKIP', 'def f():',
        'print(1)', ':', 'Example:\n    ', 'want', ';', '[']
STYLES = ('auto', 'google', 'freeform')
PROMPTS = ('>>>', '...')


def check_string(s, embed, fails, counters):
    from xdoctest import parser as P, exceptions, core
    key = ('str', s)
    t0 = time.time()
    perr = False
    try:
        parts = P.DoctestParser().parse(s)
        counters['parse-ok'] += 1
        if not isinstance(parts, list):
            fails.append((key, [{'sig': 'parse:returns-non-list', 'msg': repr(type(parts))}], {'string': s}))
    except exceptions.DoctestParseError:
        perr = True
        counters['parse-error'] += 1
    except BaseException as ex:
        if type(ex).__name__ == 'CaseTimeout':
            raise
        fails.append((key, [{'sig': 'parse:escapes:' + type(ex).__name__,
                             'msg': 'DoctestParser().parse(%r) raised %r' % (s, ex)}], {'string': s}))
        counters['parse-escape'] += 1
    if time.time() - t0 > 2.0:
        fails.append((key, [{'sig': 'parse:slow', 'msg': '%.1fs for %r' % (time.time() - t0, s)}], {'string': s}))
    n = 1
    # the directive prefix is case-insensitive: spelling it in lower case must not change whether the text parses
    low = s
    for a in ('# XDOCTEST:', '# Doctest:'):
        low = low.replace(a, a.lower())
    if low != s:
        n += 1
        try:
            P.DoctestParser().parse(low)
            perr_low = False
        except exceptions.DoctestParseError:
            perr_low = True
        except BaseException as ex:
            if type(ex).__name__ == 'CaseTimeout':
                raise
            perr_low = None
        if perr_low is not None and perr_low != perr and not any(k2 == key and a2[0]['sig'].startswith('parse:escapes') for k2, a2, _ in fails):
            fails.append((key, [{'sig': 'parse:directive-prefix-case-changes-the-verdict',
                                 'msg': 'parse(%r) %s, with the prefix in lower case it %s' % (
                                     s, 'raises the parse error' if perr else 'returns parts',
                                     'raises the parse error' if perr_low else 'returns parts')}], {'string': s}))
    for style in STYLES:
        n += 1
        try:
            with contextlib.redirect_stdout(io.StringIO()), warnings.catch_warnings(record=True) as wl:
                warnings.simplefilter('always')
                exs = list(core.parse_docstr_examples(s, 'f', style=style))
            if perr and style == 'freeform':
                if exs:
                    fails.append((key, [{'sig': 'examples:yielded-despite-parse-error', 'msg': '%s %r' % (style, s)}], {'string': s}))
                if not wl:
                    fails.append((key, [{'sig': 'examples:no-warning-for-parse-error', 'msg': '%s %r' % (style, s)}], {'string': s}))
            if perr and style == 'auto' and not exs and not wl:
                # auto = google blocks when they yield something, else freeform: a docstring that does not parse
                # as a whole either yields the examples of its intact google blocks or is reported
                fails.append((key, [{'sig': 'examples:broken-docstring-silently-dropped', 'msg': '%s %r' % (style, s)}], {'string': s}))
            if style == 'freeform':
                # whatever was accepted as an example is Python as far as the grammar goes (the parser validates the source of
                # every chunk with ast.parse; a text it lets through must stand that test as a whole as well)
                for e in exs:
                    try:
                        # the example as a whole (the library validates chunk by chunk before it cuts a chunk into parts at
                        # directive lines; a single part need not be a complete statement list)
                        srcs = ['\n'.join(l for p in e._parts for l in p.exec_lines)]
                    except Exception:
                        srcs = []
                    for src_ in srcs:
                        if '\x00' in src_ or '\r' in src_:
                            # a NUL is refused by ast.parse whatever surrounds it (also inside a comment); a lone CR ends a line
                            # for the interpreter but not in the parser's line model (line feeds only, F30): not judged
                            continue
                        try:
                            import ast
                            ast.parse(src_)
                        except SyntaxError as syn:
                            fails.append((key, [{'sig': 'examples:accepted-although-not-python',
                                                 'msg': 'the example collected from %r has the source %r: %r' % (s, src_, syn)}], {'string': s}))
                            break
                        except (ValueError, RecursionError, MemoryError):
                            pass
                # whatever was accepted as an example must be *runnable*: a run asked to return errors returns
                for e in exs:
                    e.mode = 'native'
                    e.config['colored'] = False
                    try:
                        with contextlib.redirect_stdout(io.StringIO()), contextlib.redirect_stderr(io.StringIO()):
                            sm = e.run(on_error='return', verbose=0)
                        counters['example-ran'] += 1
                    except BaseException as ex:
                        if type(ex).__name__ == 'CaseTimeout':
                            raise
                        fails.append((key, [{'sig': 'examples:accepted-example-escapes-run:' + type(ex).__name__,
                                             'msg': 'the example collected from %r: run(on_error=return) raised %r' % (s, ex)}], {'string': s}))
                        break
        except BaseException as ex:
            if type(ex).__name__ == 'CaseTimeout':
                raise
            fails.append((key, [{'sig': 'examples:escapes:%s' % type(ex).__name__,
                                 'msg': 'parse_docstr_examples(%r, style=%s) raised %r' % (s, style, ex)}], {'string': s}))
    if embed:
        src = ('def ok1():\n    """\n    Example:\n        >>> print(1)\n        1\n    """\n\n\ndef bad():\n    %s\n    pass\n\n\n'
               'def ok2():\n    """\n    Example:\n        >>> print(2)\n        2\n    """\n' % repr(s))
        with harness.scratch_dir('c14') as d:
            modname = harness.unique_modname('m14', src)
            p = os.path.join(d, modname + '.py')
            with open(p, 'w') as f:
                f.write(src)
            for style in STYLES:
                n += 1
                try:
                    with contextlib.redirect_stdout(io.StringIO()), warnings.catch_warnings():
                        warnings.simplefilter('ignore')
                        exs = list(core.parse_doctestables(p, style=style, analysis='static'))
                    sib = [e for e in exs if e.callname in ('ok1', 'ok2')]
                    if len(sib) != 2:
                        fails.append((key, [{'sig': 'module:siblings-not-collected', 'msg': '%s %r -> %r' % (style, s, [e.callname for e in exs])}], {'string': s}))
                    else:
                        for e in sib:
                            e.mode = 'native'
                            with contextlib.redirect_stdout(io.StringIO()):
                                sm = e.run(on_error='return', verbose=0)
                            if not sm['passed']:
                                fails.append((key, [{'sig': 'module:sibling-does-not-pass', 'msg': '%s %r' % (style, s)}], {'string': s}))
                except BaseException as ex:
                    if type(ex).__name__ == 'CaseTimeout':
                        raise
                    fails.append((key, [{'sig': 'module:collection-escapes:' + type(ex).__name__,
                                         'msg': 'parse_doctestables on a module holding %r (style=%s) raised %r' % (s, style, ex)}], {'string': s}))
            harness.forget_modules(modname)
            # the same module handed over as a *live module object* (xdoctest.doctest_module() called from inside a module,
            # core.parse_doctestables(module)): the malformed docstring must be contained in the same way
            n += 1
            try:
                import importlib
                sys.path.insert(0, d)
                try:
                    importlib.invalidate_caches()
                    modobj = importlib.import_module(modname)
                finally:
                    sys.path.remove(d)
                with contextlib.redirect_stdout(io.StringIO()), warnings.catch_warnings():
                    warnings.simplefilter('ignore')
                    exs = list(core.parse_doctestables(modobj, style='auto'))
                names = set(e.callname for e in exs)
                if not {'ok1', 'ok2'} <= names:
                    fails.append((key, [{'sig': 'module:live-object:siblings-not-collected',
                                         'msg': 'live module holding %r: collected %r' % (s, sorted(names))}], {'string': s}))
            except BaseException as ex:
                if type(ex).__name__ == 'CaseTimeout':
                    raise
                fails.append((key, [{'sig': 'module:live-object:collection-escapes:' + type(ex).__name__,
                                     'msg': 'parse_doctestables(<module object>) on a module holding %r raised %r' % (s, ex)}], {'string': s}))
            finally:
                harness.forget_modules(modname)
        if '\n' in s:
            # second embedding: the text as the *module* docstring, written on line 1 as a one-line triple-quoted
            # literal whose newlines are escape sequences (the value has more lines than the literal)
            esc = repr(s)[1:-1].replace('"', '\\"')
            src2 = '"""%s"""\n\n\ndef ok1():\n    """\n    Example:\n        >>> print(1)\n        1\n    """\n' % esc
            try:
                compile(src2, 'm', 'exec')
            except (SyntaxError, ValueError):
                src2 = None
            if src2:
                with harness.scratch_dir('c14b') as d:
                    modname = harness.unique_modname('m14b', src2)
                    p = os.path.join(d, modname + '.py')
                    with open(p, 'w') as f:
                        f.write(src2)
                    for style in STYLES:
                        n += 1
                        try:
                            with contextlib.redirect_stdout(io.StringIO()), warnings.catch_warnings():
                                warnings.simplefilter('ignore')
                                exs = list(core.parse_doctestables(p, style=style, analysis='static'))
                            if not any(e.callname == 'ok1' for e in exs):
                                fails.append((key, [{'sig': 'module:sibling-of-module-docstring-not-collected', 'msg': '%s %r' % (style, s)}], {'string': s}))
                        except BaseException as ex:
                            if type(ex).__name__ == 'CaseTimeout':
                                raise
                            fails.append((key, [{'sig': 'module:collection-escapes:' + type(ex).__name__,
                                                 'msg': 'parse_doctestables on a module whose one-line module docstring literal is %r (style=%s) raised %r' % (s, style, ex)}], {'string': s}))
                    harness.forget_modules(modname)
    return n


class FragmentSpec(Spec):
    prop = 'C14'
    case_timeout = 600           # one case = one shard; a hang of a single parse is bounded by the shard
    batch = 1
    timeout_is_violation = True
    title = 'strings of fragments through parse / parse_docstr_examples / parse_doctestables'

    def __init__(self, name, nfrag, embed_upto, alphabet=None):
        self.name = name
        self.nfrag = nfrag
        self.embed_upto = embed_upto
        self.max_len = nfrag
        self.FR = list(alphabet) if alphabet is not None else FR
        self.rule = ('all strings of <= %d fragments out of %d%s (strings of >= 3 fragments must contain a prompt piece); '
                     'strings of <= %d fragments are additionally embedded as the middle docstring of a module; each x 3 '
                     'styles; non-trivial = string on which the parser raises its parse error' % (
                         nfrag, len(self.FR), (' (the core alphabet %r)' % (self.FR,)) if alphabet is not None else '', embed_upto))

    def histories(self, stats):
        # shards: one per (first, second) fragment
        yield ('shard', -1, -1)
        for i in range(len(self.FR)):
            for j in range(len(self.FR)):
                yield ('shard', i, j)

    def hist_cost(self, hist):
        return len(hist[1]) if hist[0] == 'str' else 0

    def strings(self, i, j):
        FR_ = self.FR
        if i < 0:
            for a in FR_:
                yield (a,)
            return
        base = (FR_[i], FR_[j])
        yield base
        for extra in range(1, self.nfrag - 1):
            for tail in itertools.product(FR_, repeat=extra):
                yield base + tail

    def run_case(self, hist):
        import collections
        counters = collections.Counter()
        fails = []
        n = 0
        if hist[0] == 'str':
            n += check_string(hist[1], True, fails, counters)
        else:
            for seq in self.strings(hist[1], hist[2]):
                if len(seq) >= 3 and not any(f.startswith(PROMPTS) for f in seq):
                    continue
                n += check_string(''.join(seq), len(seq) <= self.embed_upto, fails, counters)
        # one replay entry per distinct signature
        best = {}
        for k, at, c in fails:
            sg = at[0]['sig']
            if sg not in best or len(k[1]) < len(best[sg][0][1]):
                best[sg] = (k, at, c)
        return {'n': n, 'nontrivial': counters['parse-error'], 'fails': list(best.values()),
                'outcomes': dict(counters), 'case': {'shard': list(hist[1:])}}


def specs(tier):
    if tier == 'thorough':
        return [FragmentSpec('fragments<=4', 4, 3), FragmentSpec('core-fragments<=5', 5, 3, alphabet=CORE)]
    return [FragmentSpec('fragments<=3', 3, 3)]
