"""
C05 - output matching equals the documented relation for every flag combination.

Exhaustive enumeration of (got, want) pairs over three small token alphabets x all 32 settings of the five
flags, on the real checker.check_output, against (i) the independent reference relation
models.matchref.matches and (ii)-(v) four laws that need no reference.  An end-to-end spec prints the got
from a one-statement doctest with the want underneath, under block directives selecting the flags.
"""
import re
import itertools

from xmc.core import Spec
from models import matchref, harness

LEVEL = 'exploration'

FLAGS = ['ELLIPSIS', 'NORMALIZE_WHITESPACE', 'IGNORE_WHITESPACE', 'NORMALIZE_REPR', 'DONT_ACCEPT_BLANKLINE']
LENIENT_ON = {'ELLIPSIS': True, 'NORMALIZE_WHITESPACE': True, 'IGNORE_WHITESPACE': True,
              'NORMALIZE_REPR': True, 'DONT_ACCEPT_BLANKLINE': False}
ALPH = {
    'W': ['a', 'b', ' ', '\n', '\t', '.'],
    'Q': ['a', 'u', 'b', 'r', "'", '"', ' '],
    'M': ['a', '\n', ' ', '\x1b[31m', '\x1b[0m', '<BLANKLINE>', '\x9b1m'],
    # the wildcard as one token, so that wants with two markers and literal pieces between them
    # ('...a...a', 'a...a...') are inside a 4-token bound under every flag setting
    'E': ['a', ' ', '\n', '...'],
    # quotes together with the marker (as one token): NORMALIZE_REPR x ELLIPSIS
    'D': ['a', "'", '...', ' '],
    # a single dot next to the marker, separated by whitespace that IGNORE_WHITESPACE deletes
    'F': ['a', '.', '...', ' '],
}
BITS = list(itertools.product([False, True], repeat=5))
IDX = {b: i for i, b in enumerate(BITS)}
ALLOFF = tuple(not LENIENT_ON[f] for f in FLAGS)


def ok_blank(s):
    # the marker is only meaningful as a whole line
    return all(l == '<BLANKLINE>' or '<BLANKLINE>' not in l for l in s.split('\n'))


_STR_CACHE = {}


def strings(name, n):
    key = (name, n)
    if key not in _STR_CACHE:
        toks = ALPH[name]
        seen = set()
        out = []
        for k in range(0, n + 1):
            for t in itertools.product(toks, repeat=k):
                s = ''.join(t)
                if s not in seen and ok_blank(s):
                    seen.add(s)
                    out.append(s)
        _STR_CACHE[key] = out
    return _STR_CACHE[key]


_RS = []


def runstates():
    if not _RS:
        from xdoctest import directive
        for bits in BITS:
            rs = directive.RuntimeState()
            for k, v in zip(FLAGS, bits):
                rs[k] = v
            _RS.append((bits, dict(zip(FLAGS, bits)), rs))
    return _RS


def strip_tr(s):
    return '\n'.join(l.rstrip(' \t') for l in s.split('\n')).rstrip()


def judge_pair(name, g, w, check_output):
    """returns (atoms, flag_sensitive)"""
    atoms = []
    res = []
    for bits, fl, rs in runstates():
        try:
            a = bool(check_output(g, w, rs))
        except Exception as ex:
            atoms.append({'sig': 'rel:raises:' + type(ex).__name__, 'msg': '%r %r %r: %r' % (g, w, fl, ex)})
            return atoms, False
        res.append(a)
        b = matchref.matches3(g, w, fl)
        if b is None:
            continue          # the two readings of "string-prefix letter" disagree on this pair: not judged
        if a != b:
            on = [f for f in FLAGS if fl[f]]
            kind = 'false-match' if a else 'false-mismatch'
            atoms.append({'sig': 'rel:%s:%s' % (kind, name),
                          'msg': 'check_output(%r, %r) = %s under %s; documented relation says %s' % (g, w, a, on or 'no flags', b)})
            break
    if atoms:
        return atoms, False
    # (ii) identical texts always match
    if g == w and not all(res):
        atoms.append({'sig': 'law:identical-texts-mismatch', 'msg': repr(g)})
    # (iii) all leniencies off: exact up to trailing whitespace
    if name == 'W':
        r_off = res[IDX[ALLOFF]]
        if r_off != (strip_tr(g) == strip_tr(w)):
            atoms.append({'sig': 'law:exact-when-all-off', 'msg': '%r vs %r -> %s' % (g, w, r_off)})
    # (iv) switching a leniency on never turns a match into a mismatch
    for bits in BITS:
        if res[IDX[bits]]:
            for j, f in enumerate(FLAGS):
                if bits[j] != LENIENT_ON[f]:
                    if f == 'DONT_ACCEPT_BLANKLINE' and '<BLANKLINE>' in g:
                        continue     # DESIGN 8.1: a got that itself contains the marker text
                    b2 = list(bits)
                    b2[j] = LENIENT_ON[f]
                    if not res[IDX[tuple(b2)]]:
                        fused = f == 'IGNORE_WHITESPACE' and re.findall(r'\.+', w) != re.findall(r'\.+', ''.join(w.split()))
                        atoms.append({'sig': 'law:monotone:' + f + (':dot-fused-with-marker-by-whitespace-removal' if fused else ''),
                                      'msg': '%r vs %r matches under %r but not after making %s lenient' % (g, w, bits, f)})
    # (v) differing non-whitespace characters never match (no wildcard in play)
    if name == 'W':
        for bits, fl, rs in runstates():
            wild = fl['ELLIPSIS'] and '...' in (''.join(w.split()) if fl['IGNORE_WHITESPACE'] else w)
            if res[IDX[bits]] and not wild:
                if ''.join(g.split()) != ''.join(w.split()):
                    atoms.append({'sig': 'law:nonwhitespace-difference-matches', 'msg': '%r vs %r under %r' % (g, w, fl)})
                    break
    sens = any(res) and not all(res)
    return atoms[:3], sens


class RelSpec(Spec):
    prop = 'C05'
    case_timeout = 1800          # one case = one shard of many evaluations
    batch = 1
    title = 'check_output vs the documented relation and its laws'

    def __init__(self, name, alph, ng, nw, only_new=None):
        """pairs (got <= ng tokens, want <= nw tokens); only_new=(a, b): skip pairs with got <= a and want <= b
        tokens (already covered by another spec)"""
        self.name = name
        self.alph = alph
        self.ng = ng
        self.nw = nw
        self.only_new = only_new
        self.max_len = max(ng, nw)
        self.rule = ('all pairs (got, want) with got <= %d and want <= %d tokens over alphabet %s=%r, each under all '
                     '32 flag settings; non-trivial = pair whose verdict depends on the flag setting' % (
                         ng, nw, alph, ALPH[alph]))

    def histories(self, stats):
        for g in strings(self.alph, self.ng):
            yield (self.alph, g)

    def hist_cost(self, hist):
        return len(hist[1]) + (len(hist[2]) if len(hist) > 2 else 0)

    def run_case(self, hist):
        from xdoctest import checker
        name, g = hist[0], hist[1]
        if len(hist) > 2:
            wants = [hist[2]]
        else:
            wants = strings(name, self.nw)
            if self.only_new:
                a, b = self.only_new
                if g in set(strings(name, a)):
                    small = set(strings(name, b))
                    wants = [w for w in wants if w not in small]
        n = 0
        sens = 0
        fails = []
        nbad = 0
        for w in wants:
            if not w:
                continue
            atoms, s = judge_pair(name, g, w, checker.check_output)
            n += 32
            sens += int(s)
            if atoms:
                nbad += 1
                if len(fails) < 5:
                    fails.append(((name, g, w), atoms, {'got': g, 'want': w}))
        return {'n': n, 'nontrivial': sens, 'fails': fails,
                'outcomes': {'pair-flag-sensitive': sens, 'pair-flag-insensitive': len(wants) - sens},
                'case': {'alphabet': name, 'got': g, 'wants': len(wants)}}


class StateReuseSpec(Spec):
    """one RuntimeState object carried through a *history* of flag assignments (rs[flag] = value) with a check after
    every assignment: the verdict must be the one a fresh state with the same flags gives (no stale view of the flags)"""
    prop = 'C05'
    name = 'state-reuse'
    batch = 4
    title = 'flag assignments on one re-used RuntimeState object'
    PAIRS = [('abc', 'a...c'), ('a  b', 'a b'), ('a b', 'ab'), ("'a'", 'a'), ('\na', '<BLANKLINE>\na'), ('a\t\nb', 'a\nb'),
             ('ab', 'a...b...b'), ("u'a'", "'a'")]

    def __init__(self, depth):
        self.max_len = depth
        self.max_cost = 99
        self.rule = ('all sequences of <= %d assignments (flag, value) over the 5 flags x {True, False} on one RuntimeState '
                     'object (initial state: defaults); after every assignment %d flag-sensitive pairs are checked and '
                     'compared with a fresh RuntimeState holding the same flags, and the flag is read back; non-trivial = all'
                     % (depth, len(self.PAIRS)))

    def init(self):
        return ()

    def enabled(self, S, hist):
        return [(f, v) for f in FLAGS for v in (True, False)]

    def step(self, S, ev):
        d = dict(S)
        d[ev[0]] = ev[1]
        return tuple(sorted(d.items()))

    def final(self, S, hist):
        return len(hist) == self.max_len

    def run_case(self, hist):
        from xdoctest import checker, directive
        rs = directive.RuntimeState()
        cur = {f: rs[f] for f in FLAGS}
        atoms = []
        n = 0
        for step_i, (f, v) in enumerate(hist):
            # look at the state first (a lazily built view would be created here), then assign
            for g, w in self.PAIRS[:2]:
                checker.check_output(g, w, rs)
            rs[f] = v
            cur[f] = v
            if bool(rs[f]) != v:
                atoms.append({'sig': 'reuse:flag-reads-back-stale', 'msg': 'after rs[%r] = %r (step %d of %r) rs[%r] is %r' % (f, v, step_i, hist, f, rs[f])})
                break
            fresh = directive.RuntimeState()
            for k, val in cur.items():
                fresh[k] = val
            for g, w in self.PAIRS:
                n += 1
                a = bool(checker.check_output(g, w, rs))
                b = bool(checker.check_output(g, w, fresh))
                c = matchref.matches3(g, w, cur)
                if a != b or (c is not None and a != c):
                    atoms.append({'sig': 'reuse:verdict-differs-from-fresh-state',
                                  'msg': 'history %r, step %d: check_output(%r, %r) on the re-used state = %s, on a fresh state with flags %r = %s (relation: %s)' % (
                                      hist, step_i, g, w, a, cur, b, c)})
                    break
            if atoms:
                break
        return {'atoms': atoms, 'n': n, 'outcome': 'ok' if not atoms else 'bad', 'case': {'assignments': [list(h) for h in hist]},
                'nontrivial': 1}


# --------------------------------------------------------------------------------------------------
class LongTextSpec(Spec):
    """the small alphabets never reach the tenth line of a text: multi-line texts of 1..14 lines whose got and want differ only
    in trailing blanks / tabs on one line (or on all), or in one letter of one line, under all 32 settings"""
    prop = 'C05'
    name = 'long-texts'
    title = 'texts of up to 14 lines differing in trailing whitespace or one letter on a given line'
    max_len = 3
    batch = 8

    def __init__(self, nmax=14):
        self.nmax = nmax
        self.rule = ('texts of n = 1..%d lines x the line that differs (each, or all) x difference {trailing blanks on the got, trailing '
                     'tab on the want, one letter changed} x 32 flag settings through check_output; trailing whitespace never matters, a '
                     'changed letter always does; non-trivial = all' % nmax)

    def histories(self, stats):
        for n in range(1, self.nmax + 1):
            for where in list(range(n)) + ['all']:
                for kind in ('got-blanks', 'want-tab', 'letter'):
                    if kind == 'letter' and where == 'all':
                        continue
                    yield (n, where, kind)

    def hist_cost(self, hist):
        return 0

    def run_case(self, hist):
        from xdoctest import checker
        n, where, kind = hist
        base = ['row %d of the table' % i for i in range(n)]
        got, want = list(base), list(base)
        idx = range(n) if where == 'all' else [where]
        for i in idx:
            if kind == 'got-blanks':
                got[i] += '   '
            elif kind == 'want-tab':
                want[i] += '\t'
            else:
                got[i] = got[i].replace('row', 'rov')
        g, w = '\n'.join(got) + '\n', '\n'.join(want)
        atoms = []
        for bits, fl, rs in runstates():
            r = bool(checker.check_output(g, w, rs))
            exp = kind != 'letter'
            if r != exp:
                atoms.append({'sig': 'long-text:%s' % ('false-mismatch:trailing-whitespace' if exp else 'false-match:letter'),
                              'msg': '%d lines, line %s, %s: check_output = %s under %r' % (n, where, kind, r, fl)})
                break
        return {'atoms': atoms, 'outcome': 'ok' if not atoms else 'bad', 'case': {'lines': n, 'where': where, 'kind': kind}, 'nontrivial': 1, 'n': 32}


class E2ERelSpec(Spec):
    prop = 'C05'
    name = 'e2e'
    title = 'one-statement doctest printing got with want underneath, flags set by block directives'
    rule = ('all (got, want) over alphabets W and Q with got <= 2 tokens and a printable single-line want <= 2 '
            'tokens whose verdict depends on the flags, under each of the 32 settings, end to end; non-trivial '
            '= all of them')
    max_len = 2
    batch = 1

    def histories(self, stats):
        for name in ('W', 'Q'):
            for g in strings(name, 2):
                if g:       # an empty stdout makes the runner compare the value instead (C02's business)
                    yield (name, g)

    def hist_cost(self, hist):
        return len(hist[1])

    def run_case(self, hist):
        name, g = hist[0], hist[1]
        wants = [hist[2]] if len(hist) > 2 else strings(name, 2)
        n = 0
        fails = []
        for w in wants:
            if not w or w != w.strip() or '\n' in w or w.startswith('>>>') or w.startswith('...') :
                continue
            ref = [matchref.matches(g, w, fl) for bits, fl, rs in runstates()]
            if all(ref) or not any(ref):
                continue
            for (bits, fl, rs), exp in zip(runstates(), ref):
                dirs = ', '.join(('+' if fl[f] else '-') + f for f in FLAGS)
                text = '>>> # xdoctest: %s\n>>> print(%r, end="")\n%s' % (dirs, g, w)
                r = harness.run_doctest(text)
                n += 1
                v = harness.verdict_of(r.summary)
                if r.raised is not None or v != ('passed' if exp else 'failed'):
                    if len(fails) < 3:
                        fails.append(((name, g, w), [{'sig': 'e2e:verdict-differs-from-relation',
                                                       'msg': 'doctest %r: %s, relation says match=%s' % (text, v, exp)}],
                                      {'doctest': text}))
                    break
        return {'n': n, 'nontrivial': n, 'fails': fails, 'outcome': 'e2e', 'case': {'alphabet': name, 'got': g}}


def specs(tier):
    if tier == 'thorough':
        return [RelSpec('W<=4x4', 'W', 4, 4), RelSpec('Q<=4x4', 'Q', 4, 4), RelSpec('M<=4x4', 'M', 4, 4),
                RelSpec('E<=4x6', 'E', 4, 6), RelSpec('D<=4x5', 'D', 4, 5), RelSpec('F<=4x5', 'F', 4, 5), StateReuseSpec(4), E2ERelSpec(), LongTextSpec(24)]
    return [RelSpec('W<=4x3', 'W', 4, 3), RelSpec('W<=3x4', 'W', 3, 4, only_new=(3, 3)),
            RelSpec('Q<=3x3', 'Q', 3, 3), RelSpec('Q<=2x4', 'Q', 2, 4, only_new=(2, 3)), RelSpec('M<=3x3', 'M', 3, 3), RelSpec('E<=3x5', 'E', 3, 5), RelSpec('D<=3x4', 'D', 3, 4), RelSpec('F<=3x4', 'F', 3, 4), StateReuseSpec(3), E2ERelSpec(), LongTextSpec(14)]
