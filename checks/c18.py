"""
C18 - displayed doctest source is faithful and re-parses to the same doctest.

The C01 program generator x formatting options.  With prompts and wants the formatted text holds every
source and want line once, in order, and nothing else; parsing it again gives the same flattened executable
lines, the same wants after the same executable line and the same evaluation modes; every displayed line
number equals the line's position in the doctest (or in the file for file-relative numbering).
"""
import re

from xmc.core import Spec
from models import progs, harness
from checks import c01

LEVEL = 'model_checking'
NUM_RE = re.compile(r'^\s*(\d+) (.*)$')


def signature(t):
    t._parse()
    flat = []
    wants = []
    for p in t._parts:
        flat += p.exec_lines
        if p.want:
            wants.append((len(flat), p.want, p.compile_mode))
    return flat, wants


class FormatSpec(c01.ProgSpec):
    prop = 'C18'
    title = 'format_src of generated programs under every formatting option, and re-parse'

    def __init__(self, *a, **k):
        c01.ProgSpec.__init__(self, *a, **k)
        self.rule = self.rule.replace('non-trivial =', 'each formatted with prompts on/off x wants on/off x line numbers '
                                      'off / doctest-relative / file-relative (lineno 1 and 98); non-trivial =')

    def run_case(self, hist):
        from xdoctest.doctest_example import DocTest
        frame = tuple(hist[0][1:])
        items = [tuple(it) for it in hist[1:]]
        b = progs.build(frame, items)
        text = b['text']
        case = {'doctest': text}
        atoms = []
        n = 0
        nontrivial = len(b['stmts']) >= 2 or bool(b['wants'])
        try:
            t = DocTest(text)
            s1 = signature(t)
        except Exception as ex:
            return {'atoms': [{'sig': 'format:parse-raises:' + type(ex).__name__, 'msg': repr(ex)}], 'outcome': 'parse-error',
                    'case': case, 'nontrivial': nontrivial}
        exp_lines = []
        src_only = []
        for p in t._parts:
            exp_lines += p.orig_lines + (p.want_lines or [])
            src_only += p.orig_lines
        # (a) prompts + wants, no numbers: every line once, in order, nothing else
        fm = t.format_src(linenos=False, colored=False, want=True, prefix=True)
        n += 1
        if fm.split('\n') != exp_lines:
            atoms.append({'sig': 'format:lines', 'msg': 'formatted %r, parts hold %r' % (fm.split('\n'), exp_lines)})
        else:
            # (b) re-parse
            try:
                s2 = signature(DocTest(fm))
                if s1[0] != s2[0]:
                    atoms.append({'sig': 'reparse:executable-lines', 'msg': '%r vs %r' % (s2[0], s1[0])})
                elif [w[:2] for w in s1[1]] != [w[:2] for w in s2[1]]:
                    atoms.append({'sig': 'reparse:wants', 'msg': '%r vs %r' % (s2[1], s1[1])})
                elif s1[1] != s2[1]:
                    atoms.append({'sig': 'reparse:evaluation-mode', 'msg': 'original %r, re-parsed %r' % (s1[1], s2[1])})
            except Exception as ex:
                atoms.append({'sig': 'reparse:raises:' + type(ex).__name__, 'msg': '%r\n%s' % (getattr(ex, 'orig_ex', ex), fm)})
        # (c) wants off: exactly the source lines
        fm2 = t.format_src(linenos=False, colored=False, want=False, prefix=True)
        n += 1
        if fm2.split('\n') != src_only:
            atoms.append({'sig': 'format:lines-without-wants', 'msg': '%r vs %r' % (fm2.split('\n'), src_only)})
        # (d) prompts off: the executable lines (and wants)
        fm3 = t.format_src(linenos=False, colored=False, want=False, prefix=False)
        n += 1
        # blank executable lines (a terminating bare '...') are not statements; the formatter drops a trailing one
        if [l for l in fm3.split('\n') if l.strip()] != [l for l in s1[0] if l.strip()]:
            atoms.append({'sig': 'format:lines-without-prompts', 'msg': '%r vs %r' % (fm3.split('\n'), s1[0])})
        # (e) line numbers
        doclines = text.expandtabs().split('\n')
        inds = [len(l) - len(l.lstrip()) for l in doclines if l.strip()]
        m = min(inds) if inds else 0
        doclines = [l[m:] for l in doclines]
        for lineno, offset, cfg_on in ((1, False, False), (1, True, False), (98, True, False), (98, False, False), (98, False, True),
                                       (98, True, True)):
            t2 = DocTest(text, lineno=lineno)
            if cfg_on:
                # the configuration asks for the opposite of what the call asks for: explicit arguments win
                t2.config['offset_linenos'] = not offset
                t2.config['colored'] = True
            fl = t2.format_src(linenos=True, colored=False, want=True, offset_linenos=offset, prefix=True)
            n += 1
            if '\x1b[' in fl:
                atoms.append({'sig': 'format:coloured-although-colored-false', 'msg': repr(fl[:120])})
            start = lineno if offset else 1
            shown = []
            for line in fl.split('\n'):
                mm = NUM_RE.match(line)
                if mm and mm.group(2).startswith(('>>>', '...')):
                    shown.append((int(mm.group(1)), mm.group(2)))
            # every source line must be displayed with its own position
            k = 0
            for num, body in shown:
                idx = num - start
                if not (0 <= idx < len(doclines)) or doclines[idx].strip() != body.strip():
                    atoms.append({'sig': 'linenos:%s' % ('file-relative' if offset else 'doctest-relative'),
                                  'msg': 'line %r displayed with number %d (start %d); that position holds %r' % (
                                      body, num, start, doclines[idx] if 0 <= idx < len(doclines) else None)})
                    break
                k += 1
            if len([1 for num, body in shown if body.startswith(('>>>', '...'))]) < sum(1 for l in src_only if l.startswith(('>>>', '...'))):
                atoms.append({'sig': 'linenos:source-line-without-number', 'msg': fl})
        # (f) the same docstring collected the way a module's docstring is (freeform extraction lumps the groups
        #     of a docstring into one doctest whose parts keep their distance): numbers still name real lines
        import copy
        import pickle
        from xdoctest import core
        # ... and the same docstring behind a block that freeform extraction must skip (prompts with a want under "Ignore:")
        pre = ['Ignore:', '    >>> ig = 1', '    >>> ig', '    1', '', 'Some prose.', '']
        ptext = '\n'.join((' ' * m + l) if l else l for l in pre) + '\n' + text
        variants = [(1, text, doclines), (41, text, doclines), (1, ptext, pre + doclines), (41, ptext, pre + doclines)]
        for L, text_, doclines in variants:
            try:
                exs = list(core.parse_docstr_examples(text_, callname='f', modpath=None, lineno=L, style='freeform'))
            except Exception as ex:
                atoms.append({'sig': 'extract:raises:' + type(ex).__name__, 'msg': repr(ex)})
                break
            for e in exs:
                for offset in (True, False):
                    fl = e.format_src(linenos=True, colored=False, want=True, offset_linenos=offset, prefix=True)
                    n += 1
                    # a copy of the parsed doctest (copy / deepcopy / pickle round trip) is the same doctest: same display
                    for cname, cp in (('copy', copy.copy), ('deepcopy', copy.deepcopy), ('pickle', lambda o: pickle.loads(pickle.dumps(o)))):
                        try:
                            fl_c = cp(e).format_src(linenos=True, colored=False, want=True, offset_linenos=offset, prefix=True)
                            n += 1
                            if fl_c != fl:
                                atoms.append({'sig': 'linenos:extracted:%s-displays-differently' % cname,
                                              'msg': 'docstring at line %d, the %s of the doctest is displayed as\n%s\nthe doctest itself as\n%s' % (L, cname, fl_c, fl)})
                        except Exception as ex:
                            atoms.append({'sig': 'linenos:extracted:%s-raises:%s' % (cname, type(ex).__name__), 'msg': repr(ex)})
                    base = L if offset else (1 - (e.lineno - L))
                    for line in fl.split('\n'):
                        mm = NUM_RE.match(line)
                        if mm and mm.group(2).startswith(('>>>', '...')):
                            idx = int(mm.group(1)) - base
                            if not (0 <= idx < len(doclines)) or doclines[idx].strip() != mm.group(2).strip():
                                atoms.append({'sig': 'linenos:extracted:%s' % ('file-relative' if offset else 'doctest-relative'),
                                              'msg': 'docstring at line %d: %r displayed with number %s; that position holds %r' % (
                                                  L, mm.group(2), mm.group(1), doclines[idx] if 0 <= idx < len(doclines) else None)})
                                break
        # (g) the docstring as that of the *second* documented function of a module file, collected with the module
        #     (parse_doctestables): file-relative numbers name the lines of the file
        if "'''" not in text:
            import os
            q = "'''"
            body = '\n'.join(('    ' + l) if l.strip() else '' for l in text.expandtabs().split('\n'))
            msrc = ('def first():\n    ' + q + '\n    >>> q1 = 1\n    >>> q1\n    1\n    ' + q + '\n    return 0\n\n\n'
                    'def second():\n    r' + q + '\n' + body + '\n    ' + q + '\n    return 0\n')
            flines = msrc.split('\n')
            with harness.scratch_dir('c18m') as d:
                modname = harness.unique_modname('m18', msrc)
                mp = os.path.join(d, modname + '.py')
                with open(mp, 'w') as f:
                    f.write(msrc)
                try:
                    import warnings
                    with warnings.catch_warnings():
                        warnings.simplefilter('ignore')
                        exs2 = [e for e in core.parse_doctestables(mp, style='freeform', analysis='static') if e.callname == 'second']
                    for e in exs2:
                        fl = e.format_src(linenos=True, colored=False, want=True, offset_linenos=True, prefix=True)
                        n += 1
                        for line in fl.split('\n'):
                            mm = NUM_RE.match(line)
                            if mm and mm.group(2).startswith(('>>>', '...')):
                                num = int(mm.group(1))
                                if not (0 < num <= len(flines)) or flines[num - 1].strip() != mm.group(2).strip():
                                    atoms.append({'sig': 'linenos:module:file-relative',
                                                  'msg': 'second docstring of a module: %r displayed with number %d; that line of the file holds %r' % (
                                                      mm.group(2), num, flines[num - 1] if 0 < num <= len(flines) else None)})
                                    break
                except Exception as ex:
                    atoms.append({'sig': 'linenos:module:raises:' + type(ex).__name__, 'msg': repr(ex)})
                finally:
                    harness.forget_modules(modname)
        seen = set()
        uniq = []
        for a in atoms:
            if a['sig'] not in seen:
                seen.add(a['sig'])
                uniq.append(a)
        return {'atoms': uniq, 'n': n, 'outcome': '%d/%d' % (len(s1[0]), len(s1[1])), 'case': case, 'nontrivial': nontrivial}


def specs(tier):
    std = [(0, False)]
    if tier == 'thorough':
        return [FormatSpec('prog-len2', 2, 99, std),
                FormatSpec('prog-frames', 2, 4, [f for f in progs.FRAMES if f != (0, False)]),
                FormatSpec('prog-len3', 3, 4, std, min_items=3)]
    return [FormatSpec('prog-len2', 2, 99, std),
            FormatSpec('prog-frames', 2, 3, [f for f in progs.FRAMES if f != (0, False)]),
            FormatSpec('prog-len3', 3, 2, std, min_items=3)]
