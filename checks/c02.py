"""
C02 - got/want verdicts are exact: no false pass, no false fail.

History = sequence of (statement kind, want form, separator).  The reference model accumulates the
output since the previous want; a want event consumes it.  Correct want forms (ALL / LAST / REPR) must
pass, exactly one corrupted want per doctest must fail *there* (GotWantException, failed_part.want is the
corrupted text, trace = statements up to and including the checked one).
"""
from xmc.core import Spec
from models import harness, matchref

LEVEL = 'model_checking'

PRE2 = '''
class O:
    def __init__(self, k): self.k = k
    def __repr__(self): return 'R<%d>' % self.k
    def __str__(self): return 'S<%d>' % self.k
class BadRepr:
    def __repr__(self): raise RuntimeError('repr raises')
def VS(k): TRACE.append(k); return 'q%d' % k
def VE(k): TRACE.append(k); return 'x%d\\ny' % k
def VO(k): TRACE.append(k); return O(k)
def VR(k): TRACE.append(k); return BadRepr()
def PV(k): TRACE.append(k); print('p%d' % k); return k * 11
async def AV(k): TRACE.append(k); return k * 11
async def APV(k): TRACE.append(k); print('p%d' % k); return k * 11
def PX(k): TRACE.append(k); print('p%d' % k); raise ValueError('e%d' % k)
def PVS(k, s): TRACE.append(k); print('p%d' % k); return k * 11
def PW(k):
    import sys
    TRACE.append(k); sys.stdout.write('w%d' % k)
'''

# kind -> (source lines, stdout, repr of value or None, is expression statement, trace items)
KINDS = ['P', 'A', 'V', 'PP', 'VS', 'VE', 'VO', 'VN', 'PV', 'N', 'VR', 'S', 'X', 'W', 'I', 'PVC', 'PVQ', 'AV', 'APV', 'SP']


def kind_info(kd, k):
    if kd == 'P':
        return ['>>> P(%d)' % k], 'p%d\n' % k, None, True, [k]
    if kd == 'PP':
        return ['>>> for i in range(2):', '...     P(%d)' % k], 'p%d\np%d\n' % (k, k), None, False, [k, k]
    if kd == 'A':
        return ['>>> v%d = T(%d)' % (k, k)], '', None, False, [k]
    if kd == 'V':
        return ['>>> V(%d)' % k], '', repr(k * 11), True, [k]
    if kd == 'VS':
        return ['>>> VS(%d)' % k], '', repr('q%d' % k), True, [k]
    if kd == 'VE':
        return ['>>> VE(%d)' % k], '', repr('x%d\ny' % k), True, [k]
    if kd == 'VO':
        return ['>>> VO(%d)' % k], '', 'R<%d>' % k, True, [k]
    if kd == 'VN':
        return ['>>> T(%d)' % k], '', None, True, [k]
    if kd == 'PV':
        return ['>>> PV(%d)' % k], 'p%d\n' % k, repr(k * 11), True, [k]
    if kd == 'SP':
        # two statements on one prompt line, the second one printing (a real ';' separator)
        return ['>>> v%d = T(%d); P(%d)' % (k, k, k)], 'p%d\n' % k, None, False, [k, k]
    if kd == 'AV':
        # top-level await of a coroutine that returns a value (no output)
        return ['>>> await AV(%d)' % k], '', repr(k * 11), True, [k]
    if kd == 'APV':
        return ['>>> await APV(%d)' % k], 'p%d\n' % k, repr(k * 11), True, [k]
    if kd == 'PVC':
        # like PV, with a ';' in a trailing comment (not a statement separator)
        return ['>>> PV(%d)  # prints; returns a value' % k], 'p%d\n' % k, repr(k * 11), True, [k]
    if kd == 'PVQ':
        # like PV, with a ';' inside a string literal
        return ['>>> PVS(%d, "a; b")' % k], 'p%d\n' % k, repr(k * 11), True, [k]
    if kd == 'N':
        return ['>>> # comment %d' % k], '', None, False, []
    if kd == 'VR':
        return ['>>> VR(%d)' % k], '', None, True, [k]
    if kd == 'S':
        return ['>>> P(%d)  # xdoctest: +SKIP' % k], '', None, True, []
    if kd == 'W':
        # writes without a trailing newline: the next output continues on the same line
        return ['>>> PW(%d)' % k], 'w%d' % k, None, True, [k]
    if kd == 'I':
        # prints; its want is wrong but ignored (inline +IGNORE_WANT): passes, and consumes the output so far
        return ['>>> P(%d)  # xdoctest: +IGNORE_WANT' % k], 'p%d\n' % k, None, True, [k]
    if kd == 'X':
        # prints, then raises; always carries its (correct) traceback want: an expected exception
        return ['>>> PX(%d)' % k], 'p%d\n' % k, None, True, [k]
    raise KeyError(kd)


OUTLINES = {'P': 1, 'PP': 2, 'PV': 1, 'X': 1, 'I': 1, 'PVC': 1, 'PVQ': 1, 'APV': 1, 'SP': 1}
HASVAL = {'V', 'VS', 'VE', 'VO', 'PV', 'PVC', 'PVQ', 'AV', 'APV'}
EXPRS = {'P', 'V', 'VS', 'VE', 'VO', 'VN', 'PV', 'PVC', 'PVQ', 'AV', 'APV'}
NOCODE = {'N', 'S'}
GOOD = ['ALL', 'LAST', 'REPR']
CORRUPT = ['c_repl', 'c_app', 'c_pre', 'c_drop', 'c_stale', 'c_stalev', 'c_stalex', 'c_blank']
SEPS = ['none', 'blank']
FLAGS = dict(ELLIPSIS=True, NORMALIZE_WHITESPACE=True, IGNORE_WHITESPACE=False, NORMALIZE_REPR=True,
             DONT_ACCEPT_BLANKLINE=False)


def ev_cost(ev):
    kd, w, sep = ev
    return int(kd != 'P') + int(w is not None) + int(w in CORRUPT) + int(sep != 'none')


class WantSpec(Spec):
    prop = 'C02'
    title = 'placements of correct and singly corrupted wants over printing / value / silent statements'
    max_cost = 99

    def __init__(self, name, max_len, max_cost=99, min_len=1):
        self.name = name
        self.max_len = max_len
        self.max_cost = max_cost
        self.min_len = min_len
        self.rule = ('history = <=%d events (19 statement kinds (incl. top-level await of a coroutine returning a value) (incl. print-then-raise with its traceback want, write-without-newline, wrong-but-ignored want) x {no want, ALL, LAST, REPR, 8 corruptions} x '
                     '{no separator, blank line}), at most one corrupted want per doctest, cost <= %d; '
                     'non-trivial = doctest with at least one want' % (max_len, max_cost))

    # state: (pending lines, previous want consumed non-empty output, corrupted already, n)
    def init(self):
        return (0, False, False, 0, False, False, False)

    def enabled(self, S, hist):
        pend, prev, corrupted, n, hadval, prevx, partial = S
        evs = []
        for kd in KINDS:
            lines = pend + OUTLINES.get(kd, 0)
            part = partial or kd == 'W'
            wants = [None]
            if kd == 'X':
                wants = ['TB']
            elif kd == 'I':
                wants = ['IGN']
            elif kd not in ('VR', 'S'):
                if lines or part or kd in HASVAL:
                    wants.append('ALL')
                    if not corrupted:
                        wants += ['c_repl', 'c_app', 'c_pre']
                        if OUTLINES.get(kd, 0) or kd == 'W':
                            # decidable only when the statement under the want wrote something itself: an empty
                            # output is (after normalisation) the same as one blank line
                            wants.append('c_blank')
                        if (lines if lines else 1) >= 2 and not part:
                            wants.append('c_drop')
                        if prev:
                            wants.append('c_stale')
                        if prevx:
                            wants.append('c_stalex')
                elif not corrupted and kd != 'N':
                    wants.append('c_repl')      # a want under a statement that produced nothing
                if hadval and not corrupted:
                    wants.append('c_stalev')
                if kd in EXPRS and OUTLINES.get(kd, 0):
                    wants.append('LAST')
                if kd in HASVAL:
                    wants.append('REPR')
            for w in wants:
                for sep in SEPS:
                    evs.append((kd, w, sep))
        return evs

    def cost(self, ev):
        return ev_cost(ev)

    def step(self, S, ev):
        pend, prev, corrupted, n, hadval, prevx, partial = S
        kd, w, sep = ev
        lines = pend + OUTLINES.get(kd, 0)
        hadval = hadval or kd in HASVAL
        if w is not None:
            # prevx: the previous want was the traceback want of a raising statement and it also consumed
            # output written by earlier want-less statements
            return (0, lines > 0 or partial or kd == 'W', corrupted or w in CORRUPT, n + 1, hadval,
                    w == 'TB' and (pend > 0 or partial), False)
        # partial: output is pending whose last line is not terminated yet
        return (min(lines, 3), prev, corrupted, n + 1, hadval, prevx,
                (partial or kd == 'W') and not OUTLINES.get(kd, 0))

    def final(self, S, hist):
        return len(hist) >= self.min_len and hist[-1][2] == 'none'

    def build(self, hist):
        lines = []
        pend = []
        exp = 'passed'
        trace_exp = []
        stop = False
        anycode = False
        unspec = None
        prev_consumed = ''
        fail_kind = None
        lastval = None
        prev_before_x = ''
        for k, (kd, w, sp) in enumerate(hist, 1):
            src, out, val, is_expr, tr = kind_info(kd, k)
            lines += src
            if kd not in NOCODE:
                anycode = True
            if not stop:
                trace_exp += tr
            pend.append(out)
            if w:
                allout = ''.join(pend)
                if w == 'IGN':
                    base = 'ZZZ ignored\n'
                elif w == 'TB':
                    base = 'Traceback (most recent call last):\nValueError: e%d\n' % k
                elif w == 'ALL' or w.startswith('c_'):
                    base = allout if allout else (val + '\n' if val else '')
                elif w == 'LAST':
                    base = out
                elif w == 'REPR':
                    base = val + '\n'
                if base and not base.endswith('\n'):
                    base += '\n'          # the want is written as whole lines
                assert base or w in ('c_repl', 'c_stalev'), (hist, k)
                if w == 'c_stalev':
                    wt = lastval + '\n'
                elif w == 'c_stalex':
                    wt = prev_before_x + base
                elif w == 'c_blank':
                    wt = '<BLANKLINE>\n'       # a want that is empty after normalisation
                elif w == 'c_repl':
                    wt = 'ZZZ\n'
                elif w == 'c_app':
                    wt = base + 'ZZZ\n'
                elif w == 'c_pre':
                    wt = 'ZZZ\n' + base
                elif w == 'c_drop':
                    bl = base.split('\n')[:-1]
                    wt = '\n'.join(bl[:-1]) + '\n'
                elif w == 'c_stale':
                    wt = prev_consumed + base
                else:
                    wt = base
                wl = wt.split('\n')[:-1]
                lines += wl
                if w.startswith('c_') and not stop:
                    # rule 2 (DESIGN 3): the corruption must be decidable - it matches neither the value
                    # nor any character-level suffix of the output since the previous want
                    wn = '\n'.join(wl)
                    cands = [allout[i:] for i in range(len(allout) + 1)] + ([val] if val else [])
                    if any(c and matchref.matches(c, wn, FLAGS) for c in cands):
                        unspec = 'corruption-matches'
                    exp = ('failed', k, wn)
                    fail_kind = kd
                    stop = True
                prev_consumed = allout
                prev_before_x = ''.join(pend[:-1])
                pend = []
            if val is not None:
                lastval = val
            if sp == 'blank':
                lines.append('')
        if exp == 'passed' and not anycode:
            exp = 'skipped'
        return {'text': '\n'.join(lines), 'exp': exp, 'trace': trace_exp, 'unspec': unspec,
                'fail_kind': fail_kind}

    def run_case(self, hist):
        b = self.build(hist)
        text = b['text']
        case = {'doctest': text, 'expect': b['exp']}
        nontrivial = any(w for _, w, _ in hist)
        r = harness.run_doctest(text, extra_pre=PRE2)
        if b['unspec']:
            return {'atoms': [], 'outcome': 'unspecified', 'unspec': 1, 'nontrivial': 0, 'case': case}
        atoms = []
        if r.raised is not None:
            atoms.append({'sig': 'want:run-raised:' + type(r.raised).__name__, 'msg': repr(r.raised)})
            return {'atoms': atoms, 'outcome': 'raised', 'case': case, 'nontrivial': nontrivial}
        v = harness.verdict_of(r.summary)
        exp = b['exp']
        exp_v = exp if isinstance(exp, str) else exp[0]
        if v != exp_v:
            if exp_v == 'failed' and v in ('passed', 'skipped'):
                if b['fail_kind'] == 'N':
                    sig = 'want:false-pass:want-under-comment-only-statement'
                else:
                    sig = 'want:false-pass'
            elif exp_v == 'passed' and v == 'failed':
                sig = 'want:false-fail:' + str(r.exc_type)
            else:
                sig = 'want:verdict:%s-expected-%s' % (v, exp_v)
            atoms.append({'sig': sig, 'msg': 'summary %s (%s: %s), expected %r' % (v, r.exc_type, str(r.exc)[:200], exp)})
        else:
            if r.trace != b['trace']:
                kind = 'ran-after-failing-want' if len(r.trace or ()) > len(b['trace']) else 'missing'
                atoms.append({'sig': 'want:trace:' + kind, 'msg': 'executed %r, expected %r' % (r.trace, b['trace'])})
            if exp_v == 'failed':
                if r.exc_type != 'GotWantException':
                    atoms.append({'sig': 'want:failed-with:' + str(r.exc_type), 'msg': str(r.exc)[:300]})
                else:
                    fp = r.doctest.failed_part
                    got_want = getattr(fp, 'want', None)
                    if got_want != exp[2]:
                        atoms.append({'sig': 'want:failure-attributed-to-other-want',
                                      'msg': 'failed_part.want=%r, corrupted want=%r' % (got_want, exp[2])})
        return {'atoms': atoms, 'outcome': '%s/%s' % (v, len(r.trace or ())), 'case': case, 'nontrivial': nontrivial}


class FlagSpec(Spec):
    """"up to the *enabled* normalisations": the flag state under which one want is judged is set by a default option, a
    block directive somewhere above (alone in its part or after ordinary statements), an inline directive on the
    checked statement, or left alone by an inline directive on an *earlier* statement - under every spelling of the
    directive prefix; the verdict must be the one the reference matcher gives under exactly that flag state"""
    prop = 'C02'
    name = 'flags'
    title = 'one want judged under a flag state set by option / block directive / inline directive x spelling'
    OUT = 'a  b, c'
    WANTS = ['a  b, c', 'a b, c', 'a  b,c', 'a  b...', 'a b,...', 'zzz']
    FLAGS_ = ['-NORMALIZE_WHITESPACE', '+IGNORE_WHITESPACE', '-ELLIPSIS', '+NORMALIZE_WHITESPACE', '-IGNORE_WHITESPACE', '+ELLIPSIS']
    MECHS = ['block', 'inline', 'inline-on-earlier', 'option']
    SPELL = ['# xdoctest:', '# doctest:', '# XDOCTEST:', '# Doctest:', '# xDoc:', '#xdoctest:']
    max_len = 6

    def __init__(self):
        self.rule = ('full product of mechanism %r x flag %r x prefix spelling %r x statements before the directive {0,1} x ordinary '
                     'statements between directive and checked statement {0,1,2} x want %r against the output %r; expected verdict from '
                     'the reference matcher under defaults + that flag (defaults alone for inline-on-earlier); non-trivial = the flag '
                     'decides the verdict' % (self.MECHS, self.FLAGS_, self.SPELL, self.WANTS, self.OUT))

    def histories(self, stats):
        for mech in self.MECHS:
            for flag in self.FLAGS_:
                for sp in (self.SPELL if mech != 'option' else self.SPELL[:1]):
                    for npre in (0, 1):
                        for nmid in (0, 1, 2):
                            if mech == 'inline-on-earlier' and nmid == 0:
                                continue
                            for w in self.WANTS:
                                yield (mech, flag, sp, npre, nmid, w)

    def hist_cost(self, hist):
        return 0

    def run_case(self, hist):
        mech, flag, sp, npre, nmid, want = hist
        fl = dict(FLAGS)
        base_verdict = matchref.matches(self.OUT, want, fl)
        if mech != 'inline-on-earlier':
            fl[flag[1:]] = flag[0] == '+'
        exp_pass = matchref.matches(self.OUT, want, fl)
        lines, trace = [], []
        k = 0
        for _ in range(npre):
            k += 1
            lines.append('>>> v%d = T(%d)' % (k, k)); trace.append(k)
        if mech == 'block':
            lines.append('>>> %s %s' % (sp, flag))
        for i in range(nmid):
            k += 1
            c = ('  %s %s' % (sp, flag)) if (mech == 'inline-on-earlier' and i == 0) else ''
            lines.append('>>> v%d = T(%d)%s' % (k, k, c)); trace.append(k)
        k += 1
        lines.append('>>> print(T(%d, %r))%s' % (k, self.OUT, ('  %s %s' % (sp, flag)) if mech == 'inline' else ''))
        trace.append(k)
        lines.append(want)
        lines.append('>>> v9 = T(9)')
        if exp_pass:
            trace.append(9)
        text = '\n'.join(lines)
        config = None
        if mech == 'option':
            from xdoctest.doctest_example import DoctestConfig
            ns = {'options': flag, 'offset_linenos': False, 'colored': False, 'reportchoice': 'udiff',
                  'global_exec': None, 'supress_import_errors': False, 'verbose': 0}
            config = DoctestConfig()._populate_from_cli(ns)
        r = harness.run_doctest(text, config=config)
        case = {'doctest': text, 'option': flag if mech == 'option' else None, 'expect': 'passed' if exp_pass else 'failed'}
        atoms = []
        tag = '%s:%s' % (mech, flag)
        if r.raised is not None:
            atoms.append({'sig': 'flags:run-raised:' + type(r.raised).__name__, 'msg': repr(r.raised)})
        else:
            v = harness.verdict_of(r.summary)
            if v != case['expect']:
                atoms.append({'sig': 'flags:%s:%s' % ('false-pass' if v == 'passed' else 'false-fail' if exp_pass else v, tag),
                              'msg': 'verdict %s (%s), the output %r %s the want %r under %s' % (
                                  v, r.exc_type, self.OUT, 'matches' if exp_pass else 'does not match', want,
                                  'the defaults' if mech == 'inline-on-earlier' else 'defaults with ' + flag)})
            elif r.trace != trace:
                atoms.append({'sig': 'flags:trace:' + tag, 'msg': 'executed %r, expected %r' % (r.trace, trace)})
            elif not exp_pass and r.exc_type != 'GotWantException':
                atoms.append({'sig': 'flags:failed-with:' + str(r.exc_type), 'msg': str(r.exc)[:200]})
        return {'atoms': atoms, 'outcome': case['expect'], 'case': case, 'nontrivial': int(exp_pass != base_verdict)}


def specs(tier):
    if tier == 'thorough':
        return [WantSpec('want-len3', 3), WantSpec('want-len4', 4, 5, min_len=4), FlagSpec()]
    return [WantSpec('want-len2', 2), WantSpec('want-len3', 3, 4, min_len=3), FlagSpec()]
