"""
C06 - ellipsis is a true wildcard.

Every (got, want) with got over the characters {a, b, space, newline, '.'} and want over the *tokens*
{a, b, space, newline, '.', '...'} up to the bound is evaluated on the real checker._ellipsis_match and
compared with a brute-force (backtracking, non-greedy) implementation of the definition in the property
text.  A second spec checks check_output under +/-ELLIPSIS with every other leniency switched off.
"""
import itertools

from xmc.core import Spec
from models import matchref

LEVEL = 'exploration'

GOT_CHARS = ['a', 'b', ' ', '\n', '.']
WANT_TOKENS = ['a', 'b', ' ', '\n', '.', '...']

_CACHE = {}


def gots(n):
    if ('g', n) not in _CACHE:
        out = []
        for k in range(n + 1):
            out += [''.join(t) for t in itertools.product(GOT_CHARS, repeat=k)]
        _CACHE[('g', n)] = out
    return _CACHE[('g', n)]


def wants(n, marker_only=True):
    """distinct want strings of <= n tokens (optionally only those containing the marker)"""
    key = ('w', n, marker_only)
    if key not in _CACHE:
        seen = set()
        out = []
        for k in range(1, n + 1):
            for t in itertools.product(WANT_TOKENS, repeat=k):
                s = ''.join(t)
                if s in seen:
                    continue
                seen.add(s)
                if marker_only and '...' not in s:
                    continue
                out.append(s)
        _CACHE[key] = out
    return _CACHE[key]


def brute_force(got, pieces):
    """exists an assignment of strictly increasing, non-overlapping positions for the pieces, the first
    anchored at 0 unless empty, the last ending at len(got) unless empty"""
    first, last, mid = pieces[0], pieces[-1], pieces[1:-1]
    if not got.startswith(first) or not got.endswith(last):
        return False
    lo = len(first)
    hi = len(got) - len(last)
    if lo > hi:
        return False

    def rec(pos, k):
        if k == len(mid):
            return True
        p = mid[k]
        j = pos
        while True:
            j = got.find(p, j, hi)
            if j < 0:
                return False
            if rec(j + len(p), k + 1):
                return True
            j += 1
            if j > hi:
                return False
    return rec(lo, 0)


class EllipsisSpec(Spec):
    prop = 'C06'
    case_timeout = 1800          # one case = one shard of many evaluations
    batch = 1
    title = '_ellipsis_match vs the brute-force definition'

    def __init__(self, name, ng, nw):
        self.name = name
        self.ng = ng
        self.nw = nw
        self.max_len = nw
        self.rule = ('all wants of <= %d tokens over %r containing the marker x all gots of <= %d characters over %r; '
                     'non-trivial = pair that matches although got != want, or that fails although every literal '
                     'piece occurs in the got' % (nw, WANT_TOKENS, ng, GOT_CHARS))

    def histories(self, stats):
        ws = wants(self.nw)
        # shard by chunks of wants
        step = 8
        for i in range(0, len(ws), step):
            yield ('chunk', i, step)

    def hist_cost(self, hist):
        return 0

    def run_case(self, hist):
        from xdoctest import checker
        em = checker._ellipsis_match
        if hist[0] == 'pair':
            pairs_w = [hist[2]]
            gs = [hist[1]]
        else:
            ws = wants(self.nw)
            pairs_w = ws[hist[1]:hist[1] + hist[2]]
            gs = gots(self.ng)
        n = 0
        nontriv = 0
        nmatch = 0
        fails = []
        for w in pairs_w:
            pieces = matchref.pieces(w)
            lits = [p for p in pieces if p]
            for g in gs:
                n += 1
                try:
                    a = bool(em(g, w))
                except Exception as ex:
                    a = 'raise:' + type(ex).__name__
                b = brute_force(g, pieces)
                nmatch += int(b)
                if a is not b:
                    if len(fails) < 4:
                        kind = 'false-match' if a is True else ('false-mismatch' if a is False else a)
                        fails.append((('pair', g, w), [{'sig': 'ellipsis:' + kind,
                                                         'msg': '_ellipsis_match(%r, %r) = %s, definition says %s (pieces %r)' % (g, w, a, b, pieces)}],
                                      {'got': g, 'want': w}))
                elif (b and g != w) or (not b and all(p in g for p in lits)):
                    nontriv += 1
        return {'n': n, 'nontrivial': nontriv, 'fails': fails,
                'outcomes': {'match': nmatch, 'mismatch': n - nmatch, 'nontrivial': nontriv},
                'case': {'wants': pairs_w[:3], 'gots': len(gs)}}


class CheckOutputSpec(Spec):
    prop = 'C06'
    case_timeout = 1800          # one case = one shard of many evaluations
    batch = 1
    title = 'check_output under +/-ELLIPSIS with all other leniencies off'

    def __init__(self, name, ng, nw):
        self.name = name
        self.ng = ng
        self.nw = nw
        self.max_len = nw
        self.rule = ('all wants <= %d tokens (with and without the marker) x gots <= %d characters through check_output '
                     'with ELLIPSIS on and off, other leniencies off; with ELLIPSIS off the marker has no special '
                     'meaning; non-trivial = want contains the marker and the two settings disagree' % (nw, ng))

    def histories(self, stats):
        ws = wants(self.nw, marker_only=False)
        step = 16
        for i in range(0, len(ws), step):
            yield ('chunk', i, step)

    def hist_cost(self, hist):
        return 0

    def run_case(self, hist):
        from xdoctest import checker, directive
        rs = {}
        for ell in (False, True):
            r = directive.RuntimeState()
            for k in ('NORMALIZE_WHITESPACE', 'IGNORE_WHITESPACE', 'NORMALIZE_REPR'):
                r[k] = False
            r['DONT_ACCEPT_BLANKLINE'] = True
            r['ELLIPSIS'] = ell
            rs[ell] = r
        if hist[0] == 'pair':
            pairs_w = [hist[2]]
            gs = [hist[1]]
        else:
            ws = wants(self.nw, marker_only=False)
            pairs_w = ws[hist[1]:hist[1] + hist[2]]
            gs = gots(self.ng)

        def strip_tr(s):
            return '\n'.join(l.rstrip(' \t') for l in s.split('\n')).rstrip()
        n = 0
        nontriv = 0
        fails = []
        for w in pairs_w:
            wn = strip_tr(w)
            pieces = matchref.pieces(wn)
            for g in gs:
                gn = strip_tr(g)
                n += 2
                off = bool(checker.check_output(g, w, rs[False]))
                on = bool(checker.check_output(g, w, rs[True]))
                exp_off = (g == w) or (gn == wn) or not w
                exp_on = exp_off or ('...' in wn and brute_force(gn, pieces))
                bad = None
                if off != exp_off:
                    bad = ('ellipsis:marker-special-although-disabled' if off else 'ellipsis:exact-mismatch-when-disabled',
                           'check_output(%r, %r) with ELLIPSIS off = %s, expected %s' % (g, w, off, exp_off))
                elif on != exp_on:
                    bad = ('ellipsis:check_output-' + ('false-match' if on else 'false-mismatch'),
                           'check_output(%r, %r) with ELLIPSIS on = %s, definition says %s' % (g, w, on, exp_on))
                if bad and len(fails) < 4:
                    fails.append((('pair', g, w), [{'sig': bad[0], 'msg': bad[1]}], {'got': g, 'want': w}))
                if on != off:
                    nontriv += 1
        return {'n': n, 'nontrivial': nontriv, 'fails': fails,
                'outcomes': {'ellipsis-decides': nontriv, 'ellipsis-irrelevant': n // 2 - nontriv},
                'case': {'wants': pairs_w[:3], 'gots': len(gs)}}


class ManyMarkersSpec(Spec):
    case_timeout = 1800          # one case = one shard of many evaluations
    """The token bound above stops at 5-6 markers.  This family is deep in the *number of markers* instead:
    want = p0 ... p1 ... p2 ... pn with n markers, inner pieces over {a, b}, end pieces over {'', a, b}."""
    prop = 'C06'
    batch = 1
    title = 'wants with many markers (n <= 14) vs the brute-force definition'

    def __init__(self, name, nmax, nfull):
        self.name = name
        self.nmax = nmax
        self.nfull = nfull
        self.max_len = nmax
        self.rule = ('wants p0...p1... ...pn with n <= %d markers: every choice of inner pieces over {a,b} for n <= %d, '
                     'the uniform (all a) and alternating (a,b,a,..) inner pieces beyond; end pieces over {empty,a,b}; gots = '
                     'all strings over {a,b} of <= min(n+2, 9) characters plus a^m and (ab)^m for m <= 16; through '
                     '_ellipsis_match and check_output(+ELLIPSIS, other leniencies off); non-trivial = as for the main spec'
                     % (nmax, nfull))

    def histories(self, stats):
        for n in range(1, self.nmax + 1):
            for e0 in ('', 'a', 'b'):
                yield ('n', n, e0)

    def hist_cost(self, hist):
        return 0

    def wants_for(self, n, e0):
        inner = n - 1
        if n <= self.nfull:
            inners = [list(t) for t in itertools.product('ab', repeat=inner)]
        else:
            inners = [['a'] * inner, ['ab'[i % 2] for i in range(inner)]]
        for mid in inners:
            for e1 in ('', 'a', 'b'):
                yield '...'.join([e0] + mid + [e1])

    def run_case(self, hist):
        from xdoctest import checker, directive
        em = checker._ellipsis_match
        r = directive.RuntimeState()
        for k in ('NORMALIZE_WHITESPACE', 'IGNORE_WHITESPACE', 'NORMALIZE_REPR'):
            r[k] = False
        r['DONT_ACCEPT_BLANKLINE'] = True
        r['ELLIPSIS'] = True
        if hist[0] == 'pair':
            ws, gs = [hist[2]], [hist[1]]
        else:
            _, n, e0 = hist
            ws = list(self.wants_for(n, e0))
            gs = list(gots_ab(min(n + 2, 9)))
            extra = ['a' * m for m in range(17)] + ['ab' * m for m in range(9)] + ['ab' * m + 'a' for m in range(9)]
            gs += [g for g in extra if g not in set(gs)]
        n_ev = nontriv = nmatch = 0
        fails = []
        for w in ws:
            pieces = matchref.pieces(w)
            lits = [p for p in pieces if p]
            for g in gs:
                n_ev += 2
                b = brute_force(g, pieces)
                nmatch += int(b)
                for label, fn in (('_ellipsis_match', lambda: em(g, w)), ('check_output', lambda: checker.check_output(g, w, r))):
                    try:
                        a = bool(fn())
                    except Exception as ex:
                        a = 'raise:' + type(ex).__name__
                    exp = b or (label == 'check_output' and g == w)
                    if a is not exp and len(fails) < 4:
                        kind = 'false-match' if a is True else ('false-mismatch' if a is False else a)
                        fails.append((('pair', g, w), [{'sig': 'ellipsis:many-markers:' + kind,
                                                         'msg': '%s(%r, %r) = %s, definition says %s (%d markers)' % (
                                                             label, g, w, a, exp, len(pieces) - 1)}], {'got': g, 'want': w}))
                if (b and g != w) or (not b and all(p in g for p in lits)):
                    nontriv += 1
        return {'n': n_ev, 'nontrivial': nontriv, 'fails': fails,
                'outcomes': {'match': nmatch, 'mismatch': n_ev // 2 - nmatch},
                'case': {'wants': ws[:2], 'gots': len(gs)}}


class ToggleSpec(Spec):
    """ELLIPSIS switched on and off by assignment on one re-used RuntimeState, a check after every assignment:
    with the flag on '...' is a wildcard, with it off it has no special meaning - whatever was asked before"""
    prop = 'C06'
    name = 'toggle-on-one-state'
    title = 'ELLIPSIS toggled on a re-used RuntimeState object'
    PAIRS = [('axb', 'a...b', True, False), ('a...b', 'a...b', True, True), ('ab', 'a...b', True, False), ('ac', 'a...b', False, False)]

    def __init__(self, depth):
        self.max_len = depth
        self.max_cost = 99
        self.rule = ('all sequences of <= %d assignments rs["ELLIPSIS"] = True/False on one RuntimeState (other leniencies off), '
                     'each followed by %d checks with a known verdict for flag on / off; non-trivial = all' % (depth, len(self.PAIRS)))

    def init(self):
        return None

    def enabled(self, S, hist):
        return [True, False]

    def step(self, S, ev):
        return ev

    def final(self, S, hist):
        return len(hist) >= 1

    def run_case(self, hist):
        from xdoctest import checker, directive
        r = directive.RuntimeState()
        for k in ('NORMALIZE_WHITESPACE', 'IGNORE_WHITESPACE', 'NORMALIZE_REPR'):
            r[k] = False
        r['DONT_ACCEPT_BLANKLINE'] = True
        atoms = []
        n = 0
        for i, v in enumerate(hist):
            checker.check_output('axb', 'a...b', r)       # the state is looked at before it is changed
            r['ELLIPSIS'] = v
            for g, w, on, off in self.PAIRS:
                n += 1
                got = bool(checker.check_output(g, w, r))
                exp = on if v else off
                if got != exp:
                    atoms.append({'sig': 'ellipsis:stale-flag-on-reused-state',
                                  'msg': 'assignments %r: after setting ELLIPSIS=%s check_output(%r, %r) = %s, expected %s' % (list(hist[:i + 1]), v, g, w, got, exp)})
                    break
            if atoms:
                break
        return {'atoms': atoms, 'n': n, 'outcome': 'ok' if not atoms else 'bad', 'case': {'assignments': list(hist)}, 'nontrivial': 1}


def gots_ab(n):
    for k in range(n + 1):
        for t in itertools.product('ab', repeat=k):
            yield ''.join(t)


class _Repr(object):
    def __init__(self, text):
        self.text = text

    def __repr__(self):
        return self.text


class GotVsWantSpec(Spec):
    """the entry point the runner calls, with what a statement printed *and* the value it returned: the want may match either,
    and the marker is a wildcard for both comparisons exactly when ELLIPSIS is enabled in the state that is passed in"""
    prop = 'C06'
    batch = 1
    title = 'check_got_vs_want(want, stdout, value) under +/-ELLIPSIS'

    def __init__(self, name, nw, ng):
        self.name = name
        self.nw, self.ng = nw, ng
        self.max_len = nw
        self.rule = ('all wants <= %d tokens x printed text <= %d characters x value {none, repr <= %d characters} through '
                     'check_got_vs_want with ELLIPSIS on and off, other leniencies off; expected: passes iff the want matches the '
                     'printed text or (when there is a value) its repr under that setting; non-trivial = the setting decides' % (nw, ng, ng))

    def histories(self, stats):
        ws = wants(self.nw, marker_only=False)
        step = 8
        for i in range(0, len(ws), step):
            yield ('chunk', i, step)

    def hist_cost(self, hist):
        return 0

    def run_case(self, hist):
        from xdoctest import checker, directive, constants
        rs = {}
        for ell in (False, True):
            r = directive.RuntimeState()
            for k in ('NORMALIZE_WHITESPACE', 'IGNORE_WHITESPACE', 'NORMALIZE_REPR'):
                r[k] = False
            r['DONT_ACCEPT_BLANKLINE'] = True
            r['ELLIPSIS'] = ell
            rs[ell] = r
        if hist[0] == 'triple':
            ws_, outs, vals = [hist[3]], [hist[1]], [hist[2]]
        else:
            ws_ = wants(self.nw, marker_only=False)[hist[1]:hist[1] + hist[2]]
            outs = gots(self.ng)
            vals = [None] + gots(self.ng)

        def strip_tr(t):
            return '\n'.join(l.rstrip(' \t') for l in t.split('\n')).rstrip()

        def ref(g, w, ell):
            gn, wn = strip_tr(g), strip_tr(w)
            if g == w or gn == wn or not w:
                return True
            return ell and '...' in wn and brute_force(gn, matchref.pieces(wn))
        n = nontriv = 0
        fails = []
        for w in ws_:
            for out in outs:
                for v in vals:
                    res = {}
                    for ell in (False, True):
                        n += 1
                        try:
                            checker.check_got_vs_want(w, out, constants.NOT_EVALED if v is None else _Repr(v), rs[ell])
                            res[ell] = True
                        except checker.GotWantException:
                            res[ell] = False
                        if v is None:
                            exp = ref(out, w, ell)
                        elif not out:
                            exp = ref(v, w, ell)
                        else:
                            exp = ref(out, w, ell) or ref(v, w, ell)
                        if res[ell] != exp and len(fails) < 4:
                            sig = 'gotvswant:%s:%s' % ('false-match' if res[ell] else 'false-mismatch',
                                                       'marker-special-although-disabled' if (res[ell] and not ell) else ('ellipsis-on' if ell else 'ellipsis-off'))
                            fails.append((('triple', out, v, w), [{'sig': sig, 'msg': 'check_got_vs_want(want=%r, stdout=%r, value with repr %r) with ELLIPSIS %s: %s, expected %s' % (
                                w, out, v, 'on' if ell else 'off', 'passes' if res[ell] else 'fails', 'pass' if exp else 'fail')}], {'want': w, 'stdout': out, 'repr': v}))
                    if res[False] != res[True]:
                        nontriv += 1
        return {'n': n, 'nontrivial': nontriv, 'fails': fails, 'outcomes': {'setting-decides': nontriv}, 'case': {'wants': ws_[:3]}}


def specs(tier):
    if tier == 'thorough':
        return [EllipsisSpec('match<=6x6', 6, 6), CheckOutputSpec('check_output<=5x5', 5, 5),
                ManyMarkersSpec('markers<=16', 16, 9), ToggleSpec(6), GotVsWantSpec('got-vs-want<=4x3', 4, 3)]
    return [EllipsisSpec('match<=5x5', 5, 5), CheckOutputSpec('check_output<=4x4', 4, 4),
            ManyMarkersSpec('markers<=14', 14, 7), ToggleSpec(4), GotVsWantSpec('got-vs-want<=3x2', 3, 2)]
