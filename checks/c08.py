"""
C08 - reported line numbers point at the real lines of the source file.

A module file is generated line by line through a writer that records the line number of every line it
emits, so the line of every first prompt, of every part and of the failing statement / offending want is
known by construction.  The configuration space (preceding lines x decorators x nesting x docstring opener
x body layout x failure kind x position x what precedes the failing statement x style) is enumerated as a
sequence of choices; each non-default choice costs 1.
"""
import io
import os
import warnings
import contextlib

from xmc.core import Spec
from models import harness

LEVEL = 'model_checking'

DIMS = [
    ('pre', ['none', 'blank2', 'comment', 'formfeed', 'formfeed_in_comment']),
    ('decos', [0, 1, 2]),
    ('nest', ['func', 'method', 'cls', 'module', 'asyncfunc']),
    ('opener', ['"""', "'''", 'r"""', 'R"""', 'u"""', '"""Summary', '"""+summary+blank', '"""+blank2',
                # the literal shares its first line with the def / class header, or is parenthesised
                'defline', 'paren']),
    ('layout', ['free_first', 'free_prose', 'two_groups', 'google', 'google_after_args', 'google_second',
                'free_after_ignored', 'free_ignored_between',
                # a blank line / a line of prose between the block label and its first prompt (known finding F46)
                'google_blank_after_label', 'google_prose_after_label']),
    ('fail', ['none', 'exc1', 'exc_ml', 'helper', 'modfunc', 'want1', 'want2',
              'exc_tryfinally', 'exc_tryexcept', 'exc_for', 'exc_with', 'want_dotst', 'want_dotst_call']),
    ('pos', ['last', 'first', 'middle']),
    ('before', ['nothing', 'want', 'multiline']),
    # what follows the closing quotes on their line
    ('closer', ['plain', 'comment', 'comment_apostrophe', 'comment_dquote', 'stmt_after']),
    # shape of the def / class header above the docstring
    ('sig', ['plain', 'multiline', 'annot', 'comment_after_colon', 'multiline_deco']),
]
STYLES = ['auto', 'google', 'freeform']
ESCAPES = {'esc_t': '\\t', 'esc_n': '\\n', 'esc_n30': '\\n' * 30, 'esc_x0a': '\\x0a', 'cont': None, 'esc_r': '\\r', 'esc_f': '\\f', 'esc_v': '\\v',
           'esc_x1c': '\\x1c', 'esc_x85': '\\x85', 'esc_u2028': '\\u2028'}


class W(object):
    def __init__(self):
        self.lines = []

    def emit(self, line):
        self.lines.append(line)
        return len(self.lines)       # 1-based line number


def doctest_lines(fail, pos, before):
    """returns [(line, role)] unindented; role in {None, 'fail'}"""
    out = []

    def ok(i):
        return [('>>> a%d = %d' % (i, i), None)]

    def prev():
        if before == 'want':
            return [('>>> print("w")', None), ('w', None)]
        if before == 'multiline':
            return [('>>> b = [1,', None), ('...      2]', None)]
        return ok(7)
    if fail == 'helper':
        out += [('>>> def h():', None), ('...     a = 1', None), ('...     raise ValueError("b")', None)]
    failing = {
        'none': [('>>> ok = 1', None)],
        'exc1': [('>>> 1/0', 'fail')],
        'exc_ml': [('>>> y = [1,', None), ('...      1/0,', 'fail'), ('...      3]', None)],
        'helper': [('>>> h()', 'fail')],
        'modfunc': [('>>> boom()', 'fail')],
        # the raising line sits inside a compound statement that goes on executing other lines (the finally
        # suite, the non-matching except clauses) while the exception propagates
        'exc_tryfinally': [('>>> try:', None), ('...     1/0', 'fail'), ('... finally:', None), ('...     z = 1', None), ('...     z = 2', None)],
        'exc_tryexcept': [('>>> try:', None), ('...     1/0', 'fail'), ('... except KeyError:', None), ('...     z = 1', None),
                          ('... except IndexError:', None), ('...     z = 2', None)],
        'exc_for': [('>>> for i in range(2):', None), ('...     z = i', None), ('...     1/0', 'fail'), ('...     z = 3', None)],
        'exc_with': [('>>> import contextlib', None), ('>>> with contextlib.suppress(KeyError):', None), ('...     z = 0', None),
                     ('...     1/0', 'fail'), ('...     z = 3', None)],
        # a part that ends with a bare '...' line, followed by a wrong want
        'want_dotst': [('>>> for i in range(2):', None), ('...     print(i)', None), ('...', None), ('0', 'fail'), ('9', None)],
        'want_dotst_call': [('>>> print(1,', None), ('...       2)', None), ('...', None), ('7 7', 'fail')],
        'want1': [('>>> print(1)', None), ('2', 'fail')],
        'want2': [('>>> for i in range(2):', None), ('...     print(i)', None), ('0', 'fail'), ('9', None)],
    }[fail]
    if pos == 'first':
        out += failing + ok(1) + ok(2)
    elif pos == 'middle':
        out += prev() + failing + ok(2)
    else:
        out += ok(1) + prev() + failing
    return out


def build(cfg):
    """cfg: dict of the 9 dimensions.  Returns dict(source, first_prompts{style:[lineno]}, fail_line,
    fail_in{style: index of the doctest holding the failing line})"""
    w = W()
    nest = cfg['nest']
    q = "'''" if cfg['opener'].startswith("'''") else '"""'
    prefix = cfg['opener'][0] if cfg['opener'][0] in 'rRu' else ''
    opener = cfg['opener']
    header_done = False

    def header():
        w.emit('def deco0(f):')
        w.emit('    return f')
        w.emit('')
        w.emit('')
        w.emit('def deco1(*a):')
        w.emit('    return deco0')
        w.emit('')
        w.emit('')
        w.emit('def boom():')
        w.emit("    raise ValueError('x')")
        w.emit('')
        w.emit('')
    sig = cfg.get('sig', 'plain')

    def emit_deco(pad):
        if sig == 'multiline_deco':
            w.emit(pad + '@deco1(1,')
            w.emit(pad + '       2)')
        else:
            w.emit(pad + '@deco0')

    def emit_header(pad, head, args):
        if sig == 'multiline' and head.startswith('class'):
            w.emit(pad + head + '(' + args + ',')
            w.emit(pad + '        ):')
        elif sig == 'multiline':
            w.emit(pad + head + '(' + args + ',')
            w.emit(pad + '        *a,')
            w.emit(pad + '        **k):')
        elif sig == 'annot' and not head.startswith('class'):
            w.emit(pad + head + '(self: "T" = None) -> "dict[str, int]":')
        elif sig == 'comment_after_colon':
            w.emit(pad + head + '(' + args + '):  # a comment: with a colon')
        else:
            w.emit(pad + head + '(' + args + '):')
    if nest != 'module':
        header()
    if cfg['pre'] == 'blank2':
        w.emit('')
        w.emit('')
    elif cfg['pre'] == 'comment':
        w.emit('# a comment line')
    elif cfg['pre'] == 'formfeed':
        # a page separator (form feed on a line of its own): one line to the interpreter
        w.emit('\x0c')
        w.emit('# next page')
    elif cfg['pre'] == 'formfeed_in_comment':
        w.emit('# page\x0cbreak and a separator\x1c inside a comment')
    if nest == 'module':
        I = ''
    elif nest in ('func', 'asyncfunc'):
        for i in range(cfg['decos']):
            emit_deco('')
        emit_header('', ('async def' if nest == 'asyncfunc' else 'def') + ' f', 'self=None')
        I = '    '
    elif nest == 'method':
        w.emit('class K(object):')
        for i in range(cfg['decos']):
            emit_deco('    ')
        emit_header('    ', 'def f', 'self=None')
        I = '        '
    elif nest == 'cls':
        for i in range(cfg['decos']):
            emit_deco('')
        emit_header('', 'class K', 'object')
        I = '    '
    # docstring opener
    if opener == '"""Summary':
        w.emit(I + '"""Summary line.')
        w.emit('')
    elif opener == '"""+summary+blank':
        w.emit(I + '"""')
        w.emit(I + 'Summary.')
        w.emit('')
    elif opener == '"""+blank2':
        # no summary: the quotes, two blank lines, then the first tag / prompt
        w.emit(I + '"""')
        w.emit('')
        w.emit('')
    elif opener == 'defline' and nest != 'module':
        w.lines[-1] += ' ' + q
    elif opener == 'paren':
        w.emit(I + '(' + q)
    else:
        w.emit(I + prefix + q)
    prose = cfg.get('prose')
    if prose:
        # a prose line holding an escape sequence: in a raw docstring it is plain text; in a non-raw one the *value* of the
        # docstring gains (\\n) or loses (backslash-newline) a line, or holds a character str.splitlines() breaks lines at
        kind, place = prose
        if kind == 'cont':
            w.emit(I + 'Joined \\')
            w.emit(I + 'with this.')
        elif place == 'mid':
            w.emit(I + "Shows 'a%sb' inline." % ESCAPES[kind])
        else:
            w.emit(I + 'Ends with' + ESCAPES[kind])
        w.emit('')
    body = doctest_lines(cfg['fail'], cfg['pos'], cfg['before'])
    layout = cfg['layout']
    prompts_free = []      # line numbers of the first prompt of the (single) freeform doctest
    blocks = []            # first prompt line of every google block
    fail_line = None
    fail_block = None

    def emit_body(indent, blockidx):
        nonlocal fail_line, fail_block
        first = None
        for line, role in body:
            n = w.emit(indent + line)
            if first is None:
                first = n
            if role == 'fail':
                fail_line = n
                fail_block = blockidx
        return first
    if layout == 'free_first':
        prompts_free.append(emit_body(I, None))
    elif layout == 'free_prose':
        w.emit(I + 'Some prose.')
        w.emit('')
        prompts_free.append(emit_body(I, None))
    elif layout == 'two_groups':
        prompts_free.append(w.emit(I + '>>> g0 = 0'))
        w.emit('')
        w.emit(I + 'Prose between the groups.')
        w.emit('')
        emit_body(I, None)
    elif layout == 'free_after_ignored':
        # a block that freeform extraction must skip (prompts under "Ignore:") before the first runnable prompt
        w.emit(I + 'Ignore:')
        w.emit(I + '    >>> ig = 1/0')
        w.emit(I + '    >>> ig2 = 2')
        w.emit('')
        w.emit(I + 'Now the real thing.')
        w.emit('')
        prompts_free.append(emit_body(I, None))
    elif layout == 'free_ignored_between':
        prompts_free.append(w.emit(I + '>>> g0 = 0'))
        w.emit('')
        w.emit(I + 'Script:')
        w.emit(I + '    >>> ig = 1/0')
        w.emit('')
        w.emit(I + 'Back to the tests.')
        w.emit('')
        emit_body(I, None)
    elif layout == 'google':
        w.emit(I + 'Example:')
        blocks.append(emit_body(I + '    ', 0))
    elif layout in ('google_blank_after_label', 'google_prose_after_label'):
        w.emit(I + 'Example:')
        if layout == 'google_prose_after_label':
            w.emit(I + '    The following shows the idea.')
        w.emit('')
        blocks.append(emit_body(I + '    ', 0))
    elif layout == 'google_after_args':
        w.emit(I + 'Args:')
        w.emit(I + '    self (object): nothing')
        w.emit('')
        w.emit(I + 'Example:')
        blocks.append(emit_body(I + '    ', 0))
    elif layout == 'google_second':
        w.emit(I + 'Example:')
        blocks.append(w.emit(I + '    >>> g0 = 0'))
        w.emit('')
        w.emit(I + 'Example:')
        blocks.append(emit_body(I + '    ', 1))
    w.emit(I + q + (')' if opener == 'paren' else '') +
           {'plain': '', 'comment': '  # noqa: E501', 'comment_apostrophe': "  # don't reformat",
            'comment_dquote': '  # see the "usage" section', 'stmt_after': '; zz = 2'}[cfg.get('closer', 'plain')])
    if nest == 'module':
        w.emit('')
        header()
    elif opener == 'defline':
        w.emit('')              # the docstring is the whole (one-statement) body of the header line
    elif nest == 'cls':
        w.emit('    z = 0')
    else:
        w.emit(I + 'return 0')
    first_prompts = {}
    fail_in = {}
    if blocks:
        first_prompts['google'] = blocks
        first_prompts['auto'] = blocks
        first_prompts['freeform'] = [blocks[0]]
        fail_in = {'google': fail_block, 'auto': fail_block, 'freeform': 0}
    else:
        first_prompts['google'] = []
        first_prompts['auto'] = prompts_free
        first_prompts['freeform'] = prompts_free
        fail_in = {'google': None, 'auto': 0, 'freeform': 0}
    return {'source': '\n'.join(w.lines) + '\n', 'first_prompts': first_prompts,
            'fail_line': fail_line, 'fail_in': fail_in}


class LinenoSpec(Spec):
    prop = 'C08'
    title = 'generated module layouts: lineno, part offsets, failing line'
    batch = 32

    def __init__(self, name, max_cost):
        self.name = name
        self.max_len = len(DIMS)
        self.max_cost = max_cost
        self.rule = ('configuration = one choice per dimension %s; every combination with at most %d non-default '
                     'choices, each collected under 3 styles and every collected doctest run; non-trivial = '
                     'configuration with a failing doctest' % (
                         ', '.join('%s(%d)' % (n, len(v)) for n, v in DIMS), max_cost))

    def init(self):
        return 0

    def enabled(self, S, hist):
        name, vals = DIMS[len(hist)]
        cfg = dict(zip([d[0] for d in DIMS], hist))
        out = []
        for v in vals:
            if name == 'decos' and v and False:
                continue
            if name == 'nest' and v == 'module' and cfg.get('decos'):
                continue
            if name == 'before' and cfg.get('pos') == 'first' and v != 'nothing':
                continue
            if name == 'pos' and cfg.get('fail') == 'none' and v != 'last':
                continue
            if name == 'sig' and v == 'comment_after_colon' and cfg.get('opener') == 'defline':
                continue       # the quotes would open inside the comment
            out.append(v)
        return out

    def cost(self, ev):
        for name, vals in DIMS:
            if ev == vals[0]:
                return 0
        return 1

    def step(self, S, ev):
        return S + 1

    def canon(self, S):
        return S

    def evkey(self, ev):
        return ev

    def final(self, S, hist):
        return len(hist) == len(DIMS)

    analysis = 'static'

    def tag(self, sig, style, cfg):
        if sig == 'lineno:start' and cfg.get('layout') in ('google_blank_after_label', 'google_prose_after_label') and style != 'freeform':
            return sig + ':' + cfg['layout']
        return sig

    def config_of(self, hist):
        return dict(zip([d[0] for d in DIMS], hist))

    def run_case(self, hist):
        cfg = self.config_of(hist)
        b = build(cfg)
        src = b['source']
        flines = src.split('\n')
        modname = harness.unique_modname('m08', src)
        atoms = []
        outcome = []
        from xdoctest import core
        with harness.scratch_dir('c08') as d:
            path = os.path.join(d, modname + '.py')
            with open(path, 'w') as f:
                f.write(src)
            try:
                for style in STYLES:
                    with contextlib.redirect_stdout(io.StringIO()), warnings.catch_warnings():
                        warnings.simplefilter('ignore')
                        try:
                            exs = list(core.parse_doctestables(path, style=style, analysis=self.analysis))
                        except Exception as ex:
                            atoms.append({'sig': self.tag('collect-raises:' + type(ex).__name__, style, cfg), 'msg': repr(ex)})
                            continue
                    exp_first = b['first_prompts'][style]
                    got_first = [e.lineno for e in exs]
                    outcome.append(len(exs))
                    if len(exs) != len(exp_first):
                        atoms.append({'sig': self.tag('lineno:doctest-count', style, cfg), 'msg': 'style=%s: %d doctests, expected %d' % (style, len(exs), len(exp_first))})
                        continue
                    if got_first != exp_first:
                        atoms.append({'sig': self.tag('lineno:start', style, cfg),
                                      'msg': 'style=%s: doctests reported at lines %r, first prompts are at %r (%r)' % (
                                          style, got_first, exp_first, [flines[n - 1] if 0 < n <= len(flines) else None for n in got_first])})
                        continue
                    for idx, e in enumerate(exs):
                        e._parse()
                        for p in e._parts:
                            n = e.lineno + p.line_offset
                            fl = flines[n - 1] if 0 < n <= len(flines) else '<out of range>'
                            if fl.strip() != p.orig_lines[0].strip():
                                atoms.append({'sig': self.tag('lineno:part-offset', style, cfg),
                                              'msg': 'style=%s: part %r located at line %d which holds %r' % (style, p.orig_lines[0], n, fl)})
                                break
                        e.mode = 'native'
                        e.config['colored'] = False
                        with contextlib.redirect_stdout(io.StringIO()), contextlib.redirect_stderr(io.StringIO()):
                            try:
                                s = e.run(on_error='return', verbose=0)
                            except Exception as ex:
                                atoms.append({'sig': self.tag('run-raises:' + type(ex).__name__, style, cfg), 'msg': repr(ex)})
                                continue
                        should_fail = b['fail_line'] is not None and b['fail_in'][style] == idx
                        if should_fail:
                            if not s['failed']:
                                atoms.append({'sig': self.tag('lineno:expected-failure-did-not-fail', style, cfg), 'msg': 'style=%s' % style})
                                continue
                            got = e.failed_lineno()
                            if got != b['fail_line']:
                                atoms.append({'sig': self.tag('lineno:failing-line:' + cfg['fail'], style, cfg),
                                              'msg': 'style=%s: failed_lineno()=%r (%r), the failing line is %d (%r)' % (
                                                  style, got, flines[got - 1] if got and 0 < got <= len(flines) else None,
                                                  b['fail_line'], flines[b['fail_line'] - 1])})
                        elif not s['passed']:
                            ei = s['exc_info']
                            atoms.append({'sig': self.tag('lineno:unexpected-failure', style, cfg), 'msg': 'style=%s: %r' % (style, ei[1] if ei else None)})
            finally:
                harness.forget_modules(modname)
        seen = set()
        uniq = []
        for a in atoms:
            if a['sig'] not in seen:
                seen.add(a['sig'])
                uniq.append(a)
        return {'atoms': uniq, 'outcome': '/'.join(map(str, outcome)), 'case': {'config': cfg, 'module': src},
                'nontrivial': cfg['fail'] != 'none'}


EDIMS = [
    ('prose', [(k, pl) for k in ESCAPES for pl in ('mid', 'eol') if not (k == 'cont' and pl == 'mid')]),
    ('opener', ['"""', "'''", 'r"""', '"""Summary']),
    ('layout', ['free_prose', 'two_groups', 'google', 'google_second']),
    ('nest', ['func', 'method', 'module']),
    ('fail', ['exc1', 'want1', 'none']),
]


class EscapeSpec(LinenoSpec):
    """escape sequences in the prose of a docstring in front of the examples (finding F28: the lines of the docstring *value*
    are not the lines of the file when the literal is not raw)"""
    title = 'escape sequences in docstring prose in front of the examples x raw / non-raw literal'

    def __init__(self, name):
        self.name = name
        self.max_len = len(EDIMS)
        self.max_cost = 99
        self.rule = ('full product of %s, each collected under 3 styles and every collected doctest run; a style under which the '
                     'docstring yields another number of doctests than the layout defines is not judged here (collection is C07); '
                     'non-trivial = non-raw literal' % ', '.join('%s(%d)' % (n, len(v)) for n, v in EDIMS))

    def enabled(self, S, hist):
        return EDIMS[len(hist)][1]

    def cost(self, ev):
        return 0

    def final(self, S, hist):
        return len(hist) == len(EDIMS)

    def config_of(self, hist):
        cfg = {n: v[0] for n, v in DIMS}
        cfg.update(dict(zip([d[0] for d in EDIMS], hist)))
        cfg['pos'] = 'last'
        return cfg

    def tag(self, sig, style, cfg):
        if sig == 'lineno:doctest-count':
            return None
        raw = 'raw' if cfg['opener'][0] in 'rR' else 'nonraw'
        what = sig.split(':')[1] if sig.startswith('lineno:') else sig
        return 'escape:%s:%s:%s:%s:%s' % (cfg['prose'][0], cfg['prose'][1], raw, style, what)

    def run_case(self, hist):
        r = LinenoSpec.run_case(self, hist)
        r['atoms'] = [a for a in r['atoms'] if a['sig'] is not None]
        r['nontrivial'] = int(self.config_of(hist)['opener'][0] not in 'rR')
        return r


DDIMS = [
    ('nest', ['func', 'method', 'cls']),
    ('layout', ['free_first', 'free_prose', 'google', 'google_second']),
    ('fail', ['exc1', 'want1', 'none']),
    ('decos', [0, 1]),
]


class DynamicSpec(LinenoSpec):
    """the same question under analysis='dynamic' (known finding F45: dynamic analysis does not know where a docstring starts and
    numbers every doctest from line 1 of the file)"""
    title = 'line numbers of doctests collected with analysis=dynamic'
    analysis = 'dynamic'

    def __init__(self, name):
        self.name = name
        self.max_len = len(DDIMS)
        self.max_cost = 99
        self.rule = ('full product of %s collected with analysis=dynamic under 3 styles; oracle as for the static layouts; '
                     'non-trivial = all' % ', '.join('%s(%d)' % (n, len(v)) for n, v in DDIMS))

    def enabled(self, S, hist):
        return DDIMS[len(hist)][1]

    def cost(self, ev):
        return 0

    def final(self, S, hist):
        return len(hist) == len(DDIMS)

    def config_of(self, hist):
        cfg = {n: v[0] for n, v in DIMS}
        cfg.update(dict(zip([d[0] for d in DDIMS], hist)))
        cfg['pos'] = 'last'
        return cfg

    def tag(self, sig, style, cfg):
        what = sig.split(':')[1] if sig.startswith('lineno:') else sig
        return 'dynamic:%s' % what

    def run_case(self, hist):
        r = LinenoSpec.run_case(self, hist)
        r['nontrivial'] = 1
        return r


def specs(tier):
    if tier == 'thorough':
        return [LinenoSpec('layouts-cost<=4', 4), EscapeSpec('escapes'), DynamicSpec('dynamic-analysis')]
    return [LinenoSpec('layouts-cost<=3', 3), EscapeSpec('escapes'), DynamicSpec('dynamic-analysis')]
