"""
C20 - backwards compatible: what passes under the standard doctest module passes here.

Texts in standard doctest syntax are generated from example templates; their wants are produced by running
the text once through the standard library's doctest module with a recording runner (REPL semantics by
construction).  Every text on which the standard module reports 0 failures (the domain) is run through
xdoctest: it must be collected, pass, and execute the same examples (shared tracer).
"""
import io
import re
import doctest
import traceback
import contextlib

from xmc.core import Spec
from models import harness

LEVEL = 'model_checking'

EX = [
    ('assign', ">>> x{k} = T({k}, 1)"),
    ('echo', ">>> T({k}, 1) + 1"),
    ('print', ">>> P({k})"),
    ('str', ">>> T({k}, 'st') + 'r'"),
    ('none', ">>> T({k})"),
    ('comment', ">>> # comment {k}"),
    ('for_dots', ">>> for i in range(2):\n...     P({k})"),
    ('for_dots_term', ">>> for i in range(2):\n...     P({k})\n..."),
    ('for_echo', ">>> for i in range(2):\n...     T({k}, i + 1)"),
    ('raise', ">>> raise ValueError(T({k}, 'm'))"),
    ('raise_call', ">>> int(T({k}, 'q'))"),
    ('raise_stack', ">>> raise KeyError(T({k}, 'kk'))"),
    ('mlit', ">>> [T({k}, 1),\n...  2]"),
    ('semi_last', ">>> y{k} = T({k}, 2); y{k}"),
    ('semi_first', ">>> T({k}, 5); y = 2"),
    ('blankout', ">>> print(T({k}, 'a\\n\\nb'))"),
    ('deffn', ">>> def f{k}(a):\n...     return T({k}, a)\n>>> f{k}(3)"),
    ('deffn_term', ">>> def g{k}(a):\n...     return T({k}, a)\n...\n>>> g{k}(4)"),
    ('ifelse', ">>> if T({k}, 1):\n...     print('p')\n... else:\n...     print('q')"),
    ('try', ">>> try:\n...     T({k}); 1/0\n... except ZeroDivisionError:\n...     print('z')"),
    ('cls', ">>> class K{k}:\n...     a = T({k}, 1)\n...\n...     def m(self):\n...         return 2"),
    ('escape', ">>> T({k}, 'a\\nb')"),
    ('printval', ">>> P({k}) or 7"),
    ('ell', ">>> print(T({k}, list(range(20)))) # doctest: +ELLIPSIS"),
    ('skipd', ">>> print(T({k}, 'zz')) # doctest: +SKIP"),
    ('nws', ">>> print(T({k}, 'a  b')) # doctest: +NORMALIZE_WHITESPACE"),
    ('ied', ">>> raise ValueError(T({k}, 'm')) # doctest: +IGNORE_EXCEPTION_DETAIL"),
    ('bs', ">>> z{k} = T({k}, 1) + \\\n...     2"),
    ('triple', ">>> s{k} = T({k}, '''a\n... b''')"),
    ('with', ">>> import contextlib\n>>> with contextlib.suppress(Exception):\n...     P({k})"),
    ('lambda', ">>> (lambda: T({k}, 3))()"),
    ('dictout', ">>> T({k}, {{'a': 1}})"),
    ('tuple', ">>> T({k}, 1), 2"),
    ('prstderr', ">>> import sys; print(T({k}, 'e'), file=sys.stderr)"),
    # prints, then raises its expected exception (the standard module ignores the output of a raising example)
    ('print_raise', ">>> PX({k})"),
    ('print_raise_fn', ">>> def b{k}():\n...     print('in b'); raise KeyError(T({k}, 'k'))\n>>> b{k}()"),
    # a bare '...' as the first continuation line of an unbalanced statement
    ('mlit_bare', ">>> print([T({k}, 1),\n...\n...  2])"),
    ('triple_bare', ">>> print(T({k}, '''a\n...\n... b'''))"),
    ('call_bare_term', ">>> print(T({k},\n...\n...    7))\n..."),
    # several options in one directive comment, comma and space separated
    ('dir_comma', ">>> print(T({k}, list(range(20))), 'a  b') # doctest: +ELLIPSIS, +NORMALIZE_WHITESPACE"),
    ('dir_space', ">>> print(T({k}, list(range(20))), 'a  b') # doctest: +ELLIPSIS +NORMALIZE_WHITESPACE"),
    ('oneline_for', ">>> for i in range(2): T({k}, i + 1)"),
    ('oneline_if', ">>> if True: T({k}, 6)"),
    ('underscore', ">>> T({k}, 4)\n>>> _ + 1"),
    ('echo_none_then_value', ">>> T({k}); T({k}, 8)"),
    ('two_values', ">>> T({k}, 1); T({k}, 2)"),
    ('echo_str_escape', ">>> T({k}, 'it\\'s')"),
    ('bytes', ">>> T({k}, b'ab')"),
    ('float', ">>> T({k}, 1) / 3"),
    ('print_multi', ">>> print(T({k}, 'x'), 1, sep='-')"),
    ('while', ">>> n{k} = 2\n>>> while n{k}:\n...     n{k} -= 1\n...     P({k})"),
    ('nested_def', ">>> def o{k}():\n...     def i():\n...         return T({k}, 9)\n...     return i()\n>>> o{k}()"),
    ('deco', ">>> import functools\n>>> @functools.lru_cache(None)\n... def c{k}():\n...     return T({k}, 3)\n>>> c{k}()"),
    ('exc_chain', ">>> raise ValueError(T({k}, 'a')) from None"),
    ('exc_custom', ">>> class E{k}(Exception):\n...     pass\n>>> raise E{k}(T({k}, 'cu'))"),
    ('exc_nomsg', ">>> raise RuntimeError if T({k}, 1) else None"),
    ('exc_multiline_msg', ">>> raise ValueError(T({k}, 'l1\\nl2'))"),
    # IGNORE_EXCEPTION_DETAIL with an exception class that lives two modules deep
    ('ied_nested', ">>> import json\n>>> json.loads(T({k}, '{{')) # doctest: +IGNORE_EXCEPTION_DETAIL"),
    ('dir_space_skip', ">>> print(T({k}, 'zz')) # doctest: +SKIP +ELLIPSIS"),
    ('mlit_blankcont', ">>> print([T({k}, 1),\n...     \n...  2])"),
    ('skipd_nowant', ">>> T({k}, 'zz') # doctest: +SKIP"),
    ('exc_note', ">>> e{k} = ValueError(T({k}, 'm'))\n>>> e{k}.add_note('a note')\n>>> raise e{k}"),
    ('exc_syntax', ">>> compile(T({k}, '1 +'), 's', 'eval')"),
    # an option directive on a comment-only line *inside* a multi-line example: it belongs to that example only
    ('skipd_ownline', ">>> print(T({k},\n... # doctest: +SKIP\n...   'zz'))"),
    ('skipd_loopbody', ">>> for i in range(1):\n...     # doctest: +SKIP\n...     print(T({k}, 'zz'))"),
    ('nwsd_ownline', ">>> print(T({k},\n... # doctest: +NORMALIZE_WHITESPACE\n...   'a   b'))"),
    # an old-style example that starts / ends with a comment line and whose compound statement echoes values
    ('comment_loop_echo', ">>> # show the values\n... for i in range(2):\n...     T({k}, i + 1)"),
    ('loop_echo_comment', ">>> for i in range(2):\n...     T({k}, i + 1)\n... # done"),
    # accepted by the standard module, not by xdoctest (known findings F54-F57)
    ('compound_blank_header', ">>> for i in range(2):\n...\n...     print(T({k}, i))"),
    ('exc_sysexit', ">>> T({k}); raise SystemExit(2)"),
    ('future_after', ">>> from __future__ import division; T({k})"),
    ('true_for_1', ">>> T({k}, 1) == 1"),
]
EXD = dict(EX)
SPECIAL_WANT = {'exc_sysexit': 'Traceback (most recent call last):\nSystemExit: 2', 'true_for_1': '1', 'skipd_ownline': 'nope', 'skipd_loopbody': 'nope', 'nwsd_ownline': 'a b', 'dir_space_skip': 'nope', 'ied_nested': 'Traceback (most recent call last):\nJSONDecodeError: whatever',
                'dir_comma': '[0, ..., 19] a b', 'dir_space': '[0, ..., 19] a b', 'ell': '[0, 1, ..., 19]', 'skipd': 'nope', 'nws': 'a b',
                'ied': 'Traceback (most recent call last):\nValueError: other',
                'raise_stack': 'Traceback (most recent call last):\n  File "<stdin>", line 1, in <module>\nKeyError: \'kk\''}
SEPS = ['none', 'blank', 'prose']
SHIFTS = ['in', 'out']       # only directly after a want: every example carries its own indentation
INDENTS = [0, 4, 8]


def tracer_globs():
    ns = {'TRACE': []}
    exec(harness.PRE, ns)
    return ns


def std_outputs(text):
    parser = doctest.DocTestParser()
    test = parser.get_doctest(text, tracer_globs(), 'n', 'f', 0)
    gots = {}        # example.lineno -> actual output (examples skipped by a directive report nothing)

    class R(doctest.DocTestRunner):
        def report_success(self, out, test, example, got):
            gots[example.lineno] = got

        def report_failure(self, out, test, example, got):
            gots[example.lineno] = got

        def report_unexpected_exception(self, out, test, example, exc_info):
            fe = traceback.format_exception_only(*exc_info[:2])
            if issubclass(exc_info[0], SyntaxError):
                fe = [l for l in fe if not l.startswith(' ')]       # message line and notes, not the source / caret lines
            gots[example.lineno] = 'Traceback (most recent call last):\n' + ''.join(fe)
    r = R(optionflags=0, verbose=False)
    with contextlib.redirect_stderr(io.StringIO()):
        r.run(test, out=lambda s: None, clear_globs=False)
    return gots


def std_run(text):
    parser = doctest.DocTestParser()
    globs = tracer_globs()
    test = parser.get_doctest(text, globs, 'n', 'f', 0)
    r = doctest.DocTestRunner(optionflags=0, verbose=False)
    with contextlib.redirect_stderr(io.StringIO()):
        res = r.run(test, out=lambda s: None, clear_globs=False)
    return res.failed == 0, res.attempted, list(globs['TRACE'])


def build(indent, events):
    chunks = [EXD[k].replace('{k}', str(i)).replace('{{', '{').replace('}}', '}') for i, (k, sep) in enumerate(events, 1)]
    text0 = '\n'.join(chunks) + '\n'
    gots = std_outputs(text0)
    examples = doctest.DocTestParser().get_examples(text0)
    # line index after which each example's want goes, and the chunk it belongs to
    lines0 = text0.split('\n')[:-1]
    chunk_of_line = []
    for ci, ch in enumerate(chunks):
        chunk_of_line += [ci] * (ch.count('\n') + 1)
    want_after = {}
    last_example_of_chunk = {}
    for ei, ex in enumerate(examples):
        end = ex.lineno
        while end + 1 < len(lines0) and lines0[end + 1].startswith('...'):
            end += 1
        want_after[end] = ei
        last_example_of_chunk[chunk_of_line[ex.lineno]] = ei
    out = []
    off = indent                 # absolute indentation of the current example
    had_want = False
    for li, line in enumerate(lines0):
        out.append(' ' * off + line)
        had_want = False            # the last line written so far is a source line
        ci = chunk_of_line[li]
        if li in want_after:
            ei = want_after[li]
            got = gots.get(examples[ei].lineno, '')
            k = events[ci][0]
            if k in SPECIAL_WANT and last_example_of_chunk.get(ci) == ei:
                got = SPECIAL_WANT[k] + '\n'
            had_want = bool(got)
            if got:
                wl = got.split('\n')[:-1]
                out += [' ' * off + (l if l.strip() else '<BLANKLINE>') for l in wl]
        if li + 1 == len(lines0) or chunk_of_line[li + 1] != ci:
            sep = events[ci][1]
            if sep == 'blank':
                out.append('')
            elif sep == 'prose':
                out += ['', ' ' * off + 'Some prose here.', '']
            elif sep in SHIFTS:
                if not had_want or (sep == 'out' and off == 0):
                    raise ValueError('shift not enabled here')
                off += 4 if sep == 'in' else -4
    text = '\n'.join(l if l.strip() else '' for l in out) + '\n'
    return text


def failing_kind(events, fp):
    """template kind of the example the failing part belongs to (located through its source lines)"""
    lines = [l for l in (getattr(fp, 'exec_lines', None) or []) if l.strip()]
    for probe in reversed(lines):
        for i, (k, sep) in enumerate(events, 1):
            chunk = EXD[k].replace('{k}', str(i)).replace('{{', '{').replace('}}', '}')
            body = [l[4:] if l[:4] in ('>>> ', '... ') else l[3:] for l in chunk.split('\n')]
            if probe in body:
                return k
    return 'unknown'


class CompatSpec(Spec):
    prop = 'C20'
    title = 'standard-syntax doctests: stdlib doctest vs xdoctest'

    def __init__(self, name, max_len, max_cost=99, min_len=1, shifts=False):
        self.shifts = shifts
        self.name = name
        self.max_len = max_len + 1
        self.max_cost = max_cost
        self.min_len = min_len
        self.rule = ('history = indentation %r then <= %d examples out of %d templates x separators %r, cost <= %d; wants '
                     'produced by the standard module; judged only where the standard module reports 0 failures; '
                     'non-trivial = judged text with >= 2 examples' % (INDENTS, max_len, len(EX), SEPS, max_cost))

    def init(self):
        return None

    def enabled(self, S, hist):
        if S is None:
            return [('indent', i) for i in INDENTS]
        return [(k, sep) for k, _ in EX for sep in SEPS + (SHIFTS if self.shifts else [])]

    def cost(self, ev):
        if ev[0] == 'indent':
            return int(ev[1] != 0)
        return int(ev[0] != 'assign') + int(ev[1] != 'none')

    def step(self, S, ev):
        if ev[0] == 'indent':
            return 0
        return min(S + 1, 3)

    def final(self, S, hist):
        if self.shifts and not any(e[1] in SHIFTS for e in hist[1:]):
            return False
        return len(hist) - 1 >= self.min_len and hist[-1][1] == 'none'

    def run_case(self, hist):
        indent = hist[0][1]
        events = [tuple(e) for e in hist[1:]]
        try:
            text = build(indent, events)
            ok, attempted, std_trace = std_run(text)
        except Exception as ex:
            return {'atoms': [], 'outcome': 'std-build-error:' + type(ex).__name__, 'nontrivial': 0, 'unspec': 1,
                    'case': {'events': events}}
        case = {'doctest': text}
        if not ok:
            # outside the domain: the standard module itself does not accept the text
            return {'atoms': [], 'outcome': 'outside-domain', 'nontrivial': 0, 'unspec': 1, 'case': case}
        import builtins
        builtins.__dict__.pop('_', None)      # left behind by the standard module's displayhook
        r = harness.run_doctest(text)
        atoms = []
        v = harness.verdict_of(r.summary)
        std_v = 'passed' if std_trace or attempted else 'passed'
        if r.raised is not None:
            cause = {'DoctestParseError': 'compound_blank_header', 'SystemExit': 'exc_sysexit'}.get(type(r.raised).__name__)
            special = cause if cause in [e[0] for e in events] else None
            atoms.append({'sig': 'compat:xdoctest-raises:' + type(r.raised).__name__ + (':' + special if special else ''), 'msg': repr(r.raised)})
        elif v == 'failed':
            fp = r.doctest.failed_part
            last = fp.exec_lines[-1] if hasattr(fp, 'exec_lines') and fp.exec_lines else ''
            kind = failing_kind(events, fp)
            if r.exc_type == 'SyntaxError' and '__future__' in str(r.exc) and any(e[0] == 'future_after' for e in events):
                kind = 'future_after'      # the part is compiled as one unit: the error belongs to the import, wherever it stands
            if r.exc_type == 'GotWantException' and re.match(r'^P\(\d+\) or 7$', last):
                sig = 'compat:fails:example-prints-and-echoes-a-value'
            elif r.exc_type == 'GotWantException' and re.match(r'^T\(\d+, 5\); y = 2$', last):
                sig = 'compat:fails:semicolon-line-whose-non-final-statement-echoes'
            elif kind in ('oneline_for', 'oneline_if') and r.exc_type == 'GotWantException':
                sig = 'compat:fails:one-line-compound-statement-echoes-a-value'
            elif kind == 'underscore' and last.startswith('_'):
                sig = 'compat:fails:underscore-variable-not-bound-to-last-value'
            else:
                sig = 'compat:fails:%s:%s' % (kind, r.exc_type)
            atoms.append({'sig': sig, 'msg': 'passes under the standard doctest module, xdoctest: %s %s at %r' % (
                r.exc_type, str(r.exc)[:200], last)})
        elif v == 'skipped':
            # only fine when the standard module executed nothing either
            if std_trace:
                atoms.append({'sig': 'compat:skipped-although-standard-module-ran-examples', 'msg': repr(std_trace)})
        elif r.trace != std_trace:
            atoms.append({'sig': 'compat:executed-examples-differ', 'msg': 'xdoctest %r, standard module %r' % (r.trace, std_trace)})
        return {'atoms': atoms, 'outcome': v, 'case': case, 'nontrivial': len(events) >= 2}


def specs(tier):
    if tier == 'thorough':
        return [CompatSpec('examples<=2', 2), CompatSpec('examples=3', 3, 4, min_len=3),
                CompatSpec('shifted<=3', 3, 5, min_len=2, shifts=True)]
    return [CompatSpec('examples<=2', 2), CompatSpec('examples=3', 3, 2, min_len=3),
            CompatSpec('shifted<=3', 3, 3, min_len=2, shifts=True)]
