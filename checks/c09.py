"""
C09 - every failure is recorded and rendered; one bad doctest never aborts the run.

Fault enumeration: failure kind x position x what precedes it x verbosity, through DocTest.run
(on_error=return) + repr_failure() and through runner.doctest_module on a 3-doctest module
[ok, failing, ok]; a subprocess spec binds the result to the real CLI (exit status, summary line).
"""
import io
import os
import re
import sys
import warnings
import contextlib

from xmc.core import Spec
from models import harness

LEVEL = 'model_checking'

# kind -> (lines, reported exception type, offset of the failing line inside these lines)
KINDS = {
    'wrongout': (['>>> print("a")', 'b'], 'GotWantException', 1),
    'exc': (['>>> 1/0'], 'ZeroDivisionError', 0),
    'exc_ml': (['>>> x = [1,', '...   1/0,', '...   3]'], 'ZeroDivisionError', 1),
    'modcode': (['>>> modboom()'], 'ValueError', 0),
    'helper_short': (['>>> hs()'], 'ValueError', 0),
    'helper_long': (['>>> hl()'], 'ValueError', 0),
    'compile_return': (['>>> return 5'], 'SyntaxError', 0),
    'compile_break': (['>>> break'], 'SyntaxError', 0),
    'compile_continue': (['>>> continue'], 'SyntaxError', 0),
    'compile_nonlocal': (['>>> nonlocal qq'], 'SyntaxError', 0),
    'compile_dupdarg': (['>>> def dd(a, a):', '...     pass'], 'SyntaxError', 0),
    # a SyntaxError raised at *run time* by code the doctest calls (its own line number is that of the inner
    # source, not of the doctest statement)
    'rt_syntax_exec': (['>>> src = chr(10).join(["a = 1", "b = 2", "c = 3", "d = ("])', '>>> exec(src)'], 'SyntaxError', 1),
    'rt_syntax_compile': (['>>> compile(chr(10).join(["x = 1", "", "", "", "y = = 2"]), "inner.py", "exec")'], 'SyntaxError', 0),
    'badrepr': (['>>> BadRepr()', 'zzz'], 'ExtractGotReprException', 0),
    # a value whose repr raises, checked against a want, after an earlier want-less statement has printed something
    # (the class lives in the module under test / in an earlier part of the doctest)
    'badrepr_mod_afterprint': (['>>> print("noise")', '', '>>> ModBadRepr()', 'zzz'], 'ExtractGotReprException', 2),
    'badrepr_afterprint': (['>>> print("noise")', '', '>>> BadRepr()', 'zzz'], 'ExtractGotReprException', 2),
    # the statement prints *and* returns a value whose repr fails: the printed text mismatches, the checker falls back
    # on the repr (F27: a repr failing without any Python frame - __repr__ = None, __repr__ returning a non-string)
    'badrepr_printret': (['>>> pr(BadRepr())', 'zzz'], 'ExtractGotReprException', 0),
    'norepr_printret': (['>>> pr(NoRepr())', 'zzz'], 'ExtractGotReprException', 0),
    'intrepr_printret': (['>>> pr(IntRepr())', 'zzz'], 'ExtractGotReprException', 0),
    'norepr': (['>>> NoRepr()', 'zzz'], 'ExtractGotReprException', 0),
    # a want that normalises to nothing against real output (F26), and the converse
    'blankwant': (['>>> print("a")', '<BLANKLINE>'], 'GotWantException', 1),
    'blankwant2': (['>>> print("a")', '<BLANKLINE>', '<BLANKLINE>'], 'GotWantException', 1),
    'blankgot': (['>>> print("")', 'b'], 'GotWantException', 1),
    # under DONT_ACCEPT_BLANKLINE the marker is ordinary text: it does not match an empty output
    'blankwant_literal': (['>>> # xdoctest: +DONT_ACCEPT_BLANKLINE', '>>> print()', '<BLANKLINE>'], 'GotWantException', 2),
    # the doctest closes the stream its output is collected in: the error arises in the machinery, after the statement,
    # with no frame of the doctest in its traceback (F31); the reported line is some line of the part (not judged)
    'close_stdout': (['>>> import sys', '>>> sys.stdout.close()'], 'ValueError', 'anyline'),
    # an exception object that answers every attribute lookup (a proxy / remote error with a permissive __getattr__)
    'exc_anyattr': (['>>> class AnyAttr(Exception):', '...     def __getattr__(self, name):', '...         return None',
                     '>>> raise AnyAttr("proxy")'], 'AnyAttr', 3),
    # an exception in a part whose (non-traceback) want is not compared because of IGNORE_WANT: still an exception
    'exc_ignorewant': (['>>> # xdoctest: +IGNORE_WANT', '>>> 1/0', 'whatever text'], 'ZeroDivisionError', 1),
    'exc_ignorewant_inline': (['>>> 1/0  # xdoctest: +IGNORE_WANT', 'whatever text'], 'ZeroDivisionError', 0),
    # the failing doctest also emitted a (recorded) warning before it failed
    'warn_then_exc': (['>>> import warnings', '>>> warnings.warn("w9")', '>>> 1/0'], 'ZeroDivisionError', 2),
    'warn_then_wrongout': (['>>> import warnings', '>>> warnings.warn("w9")', '>>> print("a")', 'b'], 'GotWantException', 3),
    'badrepr_nowant_print': (['>>> print(BadRepr())'], 'RuntimeError', 0),
    'baddirective': (['>>> x = 1  # xdoctest: +REQUIRES(bogus)'], 'Exception', 0),
    'baddirective2': (['>>> # xdoctest: +REQUIRES(env:A>=1)', '>>> x = 1'], 'Exception', 0),
    # the import wrapper of the library reports a failed import of the module under test as RuntimeError
    # naming the cause
    'importerror': (['>>> x = 1'], 'RuntimeError', None),
}
HELP = ['>>> def hs():', '...     raise ValueError("hs")', '>>> def hl():', '...     a = 1', '...     b = 2',
        '...     c = 3', '...     d = 4', '...     raise ValueError("hl")',
        '>>> class BadRepr:', '...     def __repr__(self):', '...         raise RuntimeError("norepr")',
        '>>> class NoRepr:', '...     __repr__ = None', '>>> class IntRepr:', '...     __repr__ = int',
        '>>> def pr(v):', '...     print("noise")', '...     return v']
MOD = ('def modboom():\n    raise ValueError("modboom")\n\n\nclass ModBadRepr(object):\n    def __repr__(self):\n'
       '        raise RuntimeError("norepr")\n\n\n')
DIMS = [
    ('kind', list(KINDS)),
    ('pos', ['middle', 'first', 'last']),
    ('pre', ['none', 'want', 'ml', 'bare', 'reprwant']),
    ('verbose', [0, 1, 2, 3]),
]
FILE_LINE_RE = re.compile(r'File "[^"]*", line (\d+),.*wrt source file')


NEEDS_HELP = {'helper_short', 'helper_long', 'badrepr', 'badrepr_nowant_print', 'badrepr_afterprint',
              'badrepr_printret', 'norepr_printret', 'intrepr_printret', 'norepr'}


def build(kind, pos, pre):
    # 'bare': nothing at all runs before the failing statement (no helper definitions either), so with
    # pos == 'first' the failure is recorded before anything has been executed or logged
    lines = [] if (pre == 'bare' and kind not in NEEDS_HELP) else list(HELP)
    if pre == 'want':
        lines += ['>>> print("w")', 'w']
    elif pre == 'ml':
        lines += ['>>> y = [1,', '...      2]']
    elif pre == 'reprwant':
        # an earlier passing part checks a value whose repr needs a name the doctest itself defines (gone once the run
        # is over and its namespace is cleared)
        lines += ['>>> fmt = "<%s>"', '>>> class R:', '...     def __repr__(self):', '...         return fmt % "r"', '>>> R()', '<r>']
    if pos in ('middle', 'last') and not (pre == 'bare' and pos == 'last'):
        lines += ['>>> a = 1']
    fail_at = len(lines)
    lines += KINDS[kind][0]
    if pos in ('first', 'middle'):
        lines += ['>>> b = 2']
    off = KINDS[kind][2]
    body = '\n'.join('    ' + l for l in lines)
    src = MOD + ('def ok1():\n    """\n    >>> print(1)\n    1\n    """\ndef bad():\n    """\n%s\n    """\n'
                 'def ok2():\n    """\n    >>> print(2)\n    2\n    """\n' % body)
    if kind == 'importerror':
        src += 'import nonexistent_module_xv09\n'
    first_line = src.split('\n').index('def bad():') + 2 + 1
    if off == 'anyline':
        return src, None
    exp_line = first_line + (fail_at + off if off is not None else 0)
    return src, exp_line


def check_render(t, kind, exp_line, atoms, where):
    try:
        rl = t.repr_failure()
    except BaseException as ex:
        if type(ex).__name__ == 'CaseTimeout':
            raise
        atoms.append({'sig': 'render:raises:' + type(ex).__name__, 'msg': '%s: repr_failure() raised %r' % (where, ex)})
        return
    txt = '\n'.join(rl)
    reason = KINDS[kind][1]
    if ('REASON: ' + reason) not in txt:
        atoms.append({'sig': 'render:reason', 'msg': '%s: report starts %r, expected REASON: %s' % (where, rl[:1], reason)})
    if kind == 'importerror' and 'nonexistent_module_xv09' not in txt:
        atoms.append({'sig': 'render:import-cause-missing', 'msg': '%s: %s' % (where, txt[-300:])})
    m = FILE_LINE_RE.search(txt)
    if not m:
        atoms.append({'sig': 'render:no-file-line', 'msg': '%s: %s' % (where, txt[:300])})
    elif exp_line is not None and int(m.group(1)) != exp_line:
        atoms.append({'sig': 'render:failing-line:' + kind.split('_')[0],
                      'msg': '%s: report names line %s, the failing line is %d' % (where, m.group(1), exp_line)})


class FaultSpec(Spec):
    prop = 'C09'
    name = 'faults'
    batch = 8
    title = 'failure kind x position x shape x verbosity through DocTest.run and doctest_module'

    def __init__(self):
        self.max_len = len(DIMS)
        self.max_cost = 99
        self.rule = ('full product of %s; each cell run through DocTest.run(on_error=return) + repr_failure() and through '
                     'doctest_module(all) on [ok, failing, ok]; non-trivial = all cells' % (
                         ', '.join('%s(%d)' % (n, len(v)) for n, v in DIMS)))

    def init(self):
        return 0

    def enabled(self, S, hist):
        return DIMS[len(hist)][1]

    def step(self, S, ev):
        return S + 1

    def final(self, S, hist):
        return len(hist) == len(DIMS)

    def run_case(self, hist):
        from xdoctest import core, runner
        kind, pos, pre, verbose = hist
        src, exp_line = build(kind, pos, pre)
        modname = harness.unique_modname('m09', src)
        atoms = []
        outcome = []
        with harness.scratch_dir('c09') as d:
            p = os.path.join(d, modname + '.py')
            with open(p, 'w') as f:
                f.write(src)
            buf = io.StringIO()
            try:
                with contextlib.redirect_stdout(buf), warnings.catch_warnings():
                    warnings.simplefilter('ignore')
                    exs = list(core.parse_doctestables(p, style='freeform', analysis='static'))
                t = [e for e in exs if e.callname == 'bad']
                if len(exs) != 3 or not t:
                    atoms.append({'sig': 'collect:bad-doctest-not-collected', 'msg': repr([e.callname for e in exs])})
                else:
                    t = t[0]
                    t.mode = 'native'
                    t.config['colored'] = False
                    try:
                        with contextlib.redirect_stdout(buf), contextlib.redirect_stderr(buf):
                            s = t.run(on_error='return', verbose=verbose)
                    except BaseException as ex:
                        if type(ex).__name__ == 'CaseTimeout':
                            raise
                        atoms.append({'sig': 'run:escapes:' + type(ex).__name__,
                                      'msg': 'run(on_error=return, verbose=%d) raised %r' % (verbose, ex)})
                        s = None
                    if s is not None:
                        outcome.append(harness.verdict_of(s))
                        flags = {k: bool(s[k]) for k in ('passed', 'failed', 'skipped')}
                        if not s['failed']:
                            atoms.append({'sig': 'run:not-marked-failed', 'msg': 'summary %r' % (flags,)})
                        elif flags != {'passed': False, 'failed': True, 'skipped': False}:
                            atoms.append({'sig': 'run:failed-and-also-' + ('skipped' if flags['skipped'] else 'passed'),
                                          'msg': 'summary %r: a failed doctest is neither passed nor skipped' % (flags,)})
                        else:
                            check_render(t, kind, exp_line, atoms, 'DocTest.run')
                    harness.forget_modules(modname)
                # ---- runner ----
                try:
                    with contextlib.redirect_stdout(buf), contextlib.redirect_stderr(buf), harness.fresh_process_warning_filters():
                        rs = runner.doctest_module(p, 'all', argv=[], style='freeform', verbose=verbose,
                                                   config={'colored': False})
                    tal = (rs.get('n_total'), rs.get('n_passed'), rs.get('n_failed'))
                    exp_tal = (3, 0, 3) if kind == 'importerror' else (3, 2, 1)
                    outcome.append('%s/%s/%s' % tal)
                    failed_names = sorted(e.callname for e in rs.get('failed', []))
                    exp_names = ['bad', 'ok1', 'ok2'] if kind == 'importerror' else ['bad']
                    if tal != exp_tal:
                        atoms.append({'sig': 'runner:tallies', 'msg': '(total, passed, failed)=%r, expected %r' % (tal, exp_tal)})
                    elif failed_names != exp_names:
                        atoms.append({'sig': 'runner:failed-list', 'msg': 'failed doctests reported: %r, expected %r' % (failed_names, exp_names)})
                    elif rs.get('n_skipped'):
                        atoms.append({'sig': 'runner:failed-also-counted-skipped', 'msg': 'n_skipped=%r' % (rs.get('n_skipped'),)})
                    else:
                        for e in rs['failed']:
                            if e.callname == 'bad':
                                check_render(e, kind, exp_line, atoms, 'doctest_module')
                except BaseException as ex:
                    if type(ex).__name__ == 'CaseTimeout':
                        raise
                    atoms.append({'sig': 'runner:aborted:' + type(ex).__name__,
                                  'msg': 'doctest_module(all, verbose=%d) raised %r' % (verbose, ex)})
                # ---- the same module collected with analysis='dynamic' (only where that differs: the module cannot be imported) ----
                if kind == 'importerror' and pos == 'middle' and pre == 'none':
                    harness.forget_modules(modname)
                    try:
                        with contextlib.redirect_stdout(buf), contextlib.redirect_stderr(buf), harness.fresh_process_warning_filters():
                            rs = runner.doctest_module(p, 'all', argv=[], style='freeform', verbose=verbose,
                                                       config={'colored': False}, analysis='dynamic')
                        if not rs.get('n_failed'):
                            atoms.append({'sig': 'runner:dynamic-analysis:import-error-of-the-module-not-reported',
                                          'msg': "doctest_module(all, analysis='dynamic', verbose=%d) on a module that cannot be imported: "
                                                 '(total, passed, failed)=%r' % (verbose, (rs.get('n_total'), rs.get('n_passed'), rs.get('n_failed')))})
                    except BaseException as ex:
                        if type(ex).__name__ == 'CaseTimeout':
                            raise
                        atoms.append({'sig': 'runner:dynamic-analysis:aborted:' + type(ex).__name__, 'msg': repr(ex)})
            finally:
                harness.forget_modules(modname)
        seen = set()
        uniq = []
        for a in atoms:
            if a['sig'] not in seen:
                seen.add(a['sig'])
                uniq.append(a)
        return {'atoms': uniq, 'outcome': '|'.join(outcome), 'case': {'cell': list(hist), 'module': src}, 'nontrivial': 1}


class PairSpec(Spec):
    """two failing doctests in one module [ok, bad1, bad2, ok]: the first failure must not disturb the report,
    the tallies or the execution of the second, whatever the two kinds are"""
    prop = 'C09'
    name = 'failure-pairs'
    batch = 4
    title = 'every ordered pair of failure kinds in one module through doctest_module'

    def __init__(self):
        self.max_len = 3
        self.kinds = [k for k in KINDS if k != 'importerror']
        self.rule = ('all ordered pairs of %d failure kinds x verbosity {0, 3}: module [ok, bad1, bad2, ok] through '
                     'doctest_module(all): 4 run, 2 failed, 2 passed, both failures rendered with their own type and line; '
                     'non-trivial = all' % len(self.kinds))

    def histories(self, stats):
        for a in self.kinds:
            for b in self.kinds:
                for v in (0, 3):
                    yield (a, b, v)

    def hist_cost(self, hist):
        return 0

    def run_case(self, hist):
        from xdoctest import runner
        k1, k2, verbose = hist
        src1, line1 = build(k1, 'middle', 'none')
        src2, line2 = build(k2, 'middle', 'want')
        # second module text: take the function 'bad' of src2, rename it, append to src1 before ok2
        body2 = src2[src2.index('def bad():'):src2.index('def ok2():')].replace('def bad():', 'def bad2():')
        cut = src1.index('def ok2():')
        src = src1[:cut] + body2 + src1[cut:]
        off2 = src[:src.index('def bad2():')].count('\n') - src2[:src2.index('def bad():')].count('\n')
        # a kind whose failing line is not determined (close_stdout) has no expected line
        exp = {'bad': (k1, line1), 'bad2': (k2, None if line2 is None else line2 + off2)}
        modname = harness.unique_modname('m09p', src)
        atoms = []
        with harness.scratch_dir('c09p') as d:
            p = os.path.join(d, modname + '.py')
            with open(p, 'w') as f:
                f.write(src)
            buf = io.StringIO()
            try:
                with contextlib.redirect_stdout(buf), contextlib.redirect_stderr(buf), harness.fresh_process_warning_filters():
                    rs = runner.doctest_module(p, 'all', argv=[], style='freeform', verbose=verbose, config={'colored': False})
                tal = (rs.get('n_total'), rs.get('n_passed'), rs.get('n_failed'), rs.get('n_skipped'))
                if tal != (4, 2, 2, 0):
                    atoms.append({'sig': 'pairs:tallies', 'msg': '(total, passed, failed, skipped)=%r, expected (4, 2, 2, 0)' % (tal,)})
                else:
                    names = sorted(e.callname for e in rs['failed'])
                    if names != ['bad', 'bad2']:
                        atoms.append({'sig': 'pairs:failed-list', 'msg': repr(names)})
                    for e in rs['failed']:
                        if e.callname in exp:
                            check_render(e, exp[e.callname][0], exp[e.callname][1], atoms, 'doctest_module/' + e.callname)
            except BaseException as ex:
                if type(ex).__name__ == 'CaseTimeout':
                    raise
                atoms.append({'sig': 'pairs:runner-aborted:' + type(ex).__name__, 'msg': repr(ex)})
            finally:
                harness.forget_modules(modname)
        seen = set()
        uniq = [a for a in atoms if not (a['sig'] in seen or seen.add(a['sig']))]
        return {'atoms': uniq, 'outcome': 'ok' if not uniq else 'bad', 'case': {'kinds': [k1, k2], 'verbose': verbose, 'module': src},
                'nontrivial': 1}


class CliFaultSpec(Spec):
    prop = 'C09'
    name = 'cli'
    batch = 1
    title = 'python -m xdoctest <module> all in a subprocess for every failure kind'

    def __init__(self, positions):
        self.positions = positions
        self.max_len = 2
        self.rule = ('every failure kind x position %r in a real subprocess: exit status 1 (not a crash), final summary '
                     'line counts 1 failed / 2 passed; non-trivial = all' % (positions,))

    def histories(self, stats):
        for k in KINDS:
            for pos in self.positions:
                yield (k, pos)

    def hist_cost(self, hist):
        return 0

    def run_case(self, hist):
        import subprocess
        from xmc import core
        kind, pos = hist
        src, exp_line = build(kind, pos, 'none')
        atoms = []
        with harness.scratch_dir('c09s') as d:
            p = os.path.join(d, 'mcli09.py')
            with open(p, 'w') as f:
                f.write(src)
            env = {k: v for k, v in os.environ.items() if not k.startswith('XDOCTEST_')}
            env['PYTHONPATH'] = os.path.join(core.REPO, 'src')
            r = subprocess.run([sys.executable, '-m', 'xdoctest', p, 'all', '--style=freeform', '--nocolor'], cwd=d, env=env,
                               capture_output=True, text=True, timeout=120)
            if r.returncode != 1:
                atoms.append({'sig': 'cli:exit-status', 'msg': 'exit status %r; stderr tail: %s' % (r.returncode, r.stderr[-400:])})
            if 'Traceback (most recent call last)' in r.stderr:
                atoms.append({'sig': 'cli:crash', 'msg': r.stderr[-600:]})
            m = re.findall(r'^=== (.*) in [\d.]+ seconds ===$', r.stdout, re.M)
            exp = '3 failed' if kind == 'importerror' else '1 failed, 2 passed'
            if not m or not m[-1].startswith(exp):
                atoms.append({'sig': 'cli:summary-line', 'msg': 'summary %r, expected %r' % (m[-1:] , exp)})
        return {'atoms': atoms, 'outcome': str(r.returncode), 'case': {'cell': list(hist)}, 'nontrivial': 1}


def specs(tier):
    if tier == 'thorough':
        return [FaultSpec(), PairSpec(), CliFaultSpec(['first', 'middle', 'last'])]
    return [FaultSpec(), CliFaultSpec(['middle'])]
