"""
C17 - module name <-> path resolution agrees with Python's import system.

All directory trees of bounded depth over {absent, module, package, plain directory, module+package,
module+plain directory} per name are materialised; every dotted name of <= 3 components is resolved with
utils.modname_to_modpath(name, sys_path=[root]) and compared with importlib's FileFinder resolved component
by component (namespace portions count as "nothing there", DESIGN 3.4); found paths are converted back
(modpath_to_modname), split (split_modpath) and - for plain modules - imported by path.
"""
import os
import sys
import zlib
import itertools
import importlib
import importlib.machinery

from xmc.core import Spec
from models import harness

LEVEL = 'exploration'

TOP_NAMES = ['a', 'b_c']
SUB_NAMES = ['a', '__main__']
LOOKUP = ['a', 'b_c', '__main__']


def gen_dir(depth, names=TOP_NAMES):
    opts_per_name = []
    for name in names:
        opts = [None, ('mod',)]
        if depth > 0 and name != '__main__':
            for ch in gen_dir(depth - 1, SUB_NAMES if depth == 1 else TOP_NAMES):
                ch = tuple(sorted(ch.items()))
                for kind in ('pkg', 'ns', 'mod+pkg', 'mod+ns'):
                    opts.append((kind, ch))
        opts_per_name.append(opts)
    for combo in itertools.product(*opts_per_name):
        yield dict(zip(names, combo))


def materialize(root, tree):
    os.makedirs(root, exist_ok=True)
    for name, spec in dict(tree).items():
        if spec is None:
            continue
        kind = spec[0]
        if 'mod' in kind.split('+'):
            with open(os.path.join(root, name + '.py'), 'w') as f:
                f.write('X = 1\n')
        if 'pkg' in kind or 'ns' in kind:
            d = os.path.join(root, name)
            materialize(d, spec[1])
            if 'pkg' in kind:
                open(os.path.join(d, '__init__.py'), 'w').close()


def oracle(root, modname):
    parts = modname.split('.')
    cur = root
    res = None
    for i, p in enumerate(parts):
        finder = importlib.machinery.FileFinder(cur, (importlib.machinery.SourceFileLoader, ['.py']))
        spec = finder.find_spec(p)
        if spec is None or spec.loader is None:      # loader None = namespace portion
            return None
        if spec.submodule_search_locations:
            cur = spec.submodule_search_locations[0]
            res = cur
        else:
            if i != len(parts) - 1:
                return None
            res = spec.origin
    return res


def lookup_names():
    out = []
    for d in range(1, 4):
        for combo in itertools.product(LOOKUP, repeat=d):
            out.append('.'.join(combo))
    return out


class TreeSpec(Spec):
    prop = 'C17'
    batch = 2
    title = 'directory trees x dotted names vs importlib FileFinder'

    def __init__(self, name, depth, wide=False):
        self.name = name
        self.depth = depth
        self.wide = wide
        self.max_len = depth
        self.rule = ('all trees of depth %d over names %r (sub level %r), each name absent/module/package/plain dir/'
                     'module+package/module+plain dir; x all %d dotted names of <= 3 components over %r; non-trivial = '
                     'resolution that finds something, or finds nothing although a file or directory of that name exists' % (
                         depth, TOP_NAMES, SUB_NAMES, len(lookup_names()), LOOKUP))

    def histories(self, stats):
        if self.depth == 1:
            for t in gen_dir(1):
                yield tuple(sorted(t.items()))
        else:
            # depth 2: name 'a' takes every depth-2 option, 'b_c' a small set
            others = [None, ('mod',), ('pkg', ())]
            if self.wide:
                others = [t['b_c'] for t in gen_dir(1, ['b_c'])]
            for ta in gen_dir(2, ['a']):
                for tb in others:
                    yield tuple(sorted({'a': ta['a'], 'b_c': tb}.items()))

    def hist_cost(self, hist):
        return len(repr(hist))

    def lookup(self):
        return lookup_names()

    def run_case(self, hist):
        from xdoctest import utils
        from xdoctest.utils import util_import
        atoms = []
        n = 0
        nontriv = 0
        outcomes = {'found': 0, 'absent': 0}
        with harness.scratch_dir('c17') as base:
            # a fresh absolute path per tree: whatever the library remembers about one tree must not be able
            # to leak into the next case (histories at one path are the business of the 'edits' spec)
            root = os.path.join(base, 'root-%08x' % (zlib.crc32(repr(hist).encode()) & 0xffffffff))
            materialize(root, hist)
            importlib.invalidate_caches()
            for nm in self.lookup():
                n += 1
                exp = oracle(root, nm)
                try:
                    got = util_import.modname_to_modpath(nm, sys_path=[root])
                except Exception as ex:
                    atoms.append({'sig': 'resolve:raises:' + type(ex).__name__, 'msg': '%s: %r' % (nm, ex)})
                    continue
                outcomes['found' if got else 'absent'] += 1
                first = os.path.join(root, nm.split('.')[0])
                if got or os.path.exists(first) or os.path.exists(first + '.py'):
                    nontriv += 1
                if (exp and os.path.realpath(exp)) != (got and os.path.realpath(got)):
                    kind = 'finds-what-python-would-not' if got and not exp else ('misses-importable' if exp and not got else 'other-file')
                    atoms.append({'sig': 'resolve:' + kind,
                                  'msg': 'modname_to_modpath(%r) = %r, the import system finds %r' % (
                                      nm, got and os.path.relpath(got, root), exp and os.path.relpath(exp, root))})
                    continue
                if got is None:
                    continue
                try:
                    back = util_import.modpath_to_modname(got)
                    if back != nm:
                        atoms.append({'sig': 'roundtrip:name', 'msg': '%r -> %r -> %r' % (nm, os.path.relpath(got, root), back)})
                    dp, rel = util_import.split_modpath(got)
                    if os.path.realpath(dp) != os.path.realpath(root) or os.path.realpath(os.path.join(dp, rel)) != os.path.realpath(got):
                        atoms.append({'sig': 'split:root', 'msg': 'split_modpath(%r) = %r' % (os.path.relpath(got, root), (dp, rel))})
                except Exception as ex:
                    atoms.append({'sig': 'roundtrip:raises:' + type(ex).__name__, 'msg': '%s: %r' % (nm, ex)})
                targets = []
                if got.endswith('.py') and not nm.endswith('__main__') and nm.count('.') <= 1:
                    targets.append(got)
                elif os.path.isdir(got) and '__main__' not in nm and nm.count('.') <= 1:
                    # a package: by its directory and by its __init__.py file - both are "the module of that name"
                    targets += [got, os.path.join(got, '__init__.py')]
                for target, pre in [(t, p) for t in targets for p in (False, True)]:
                    # pre: the directory that has to be on the search path is there already (the caller put it in front);
                    # it must still be there - once, in front - afterwards
                    outer = list(sys.path)
                    if pre:
                        sys.path.insert(0, root)
                    before = list(sys.path)
                    top = nm.split('.')[0]
                    try:
                        m = utils.import_module_from_path(target)
                        if sys.modules.get(nm) is not m:
                            atoms.append({'sig': 'import:not-the-module-in-sys.modules',
                                          'msg': 'import by path of %r (%s): returned %r, sys.modules[%r] is %r' % (
                                              os.path.relpath(target, root), nm, m, nm, sys.modules.get(nm))})
                        if m.__name__ != nm:
                            atoms.append({'sig': 'import:module-name', 'msg': 'import by path of %r gives %r' % (nm, m.__name__)})
                        mf = getattr(m, '__file__', None)
                        expf = got if got.endswith('.py') else os.path.join(got, '__init__.py')
                        if not mf or os.path.realpath(mf) != os.path.realpath(expf):
                            atoms.append({'sig': 'import:other-file', 'msg': '%r imported from %r' % (nm, mf)})
                    except Exception as ex:
                        atoms.append({'sig': 'import:raises:' + type(ex).__name__, 'msg': '%s: %r' % (nm, ex)})
                    finally:
                        if sys.path != before:
                            atoms.append({'sig': 'import:sys.path-changed' + (':directory-already-on-sys.path' if pre else ''),
                                          'msg': 'added %r, removed %r' % ([p for p in sys.path if p not in before], [p for p in before if p not in sys.path] or
                                                                           ('an entry moved' if sorted(sys.path) == sorted(before) else 'a duplicate'))})
                        sys.path[:] = outer
                        harness.forget_modules(top)
        seen = set()
        uniq = []
        for a in atoms:
            if a['sig'] not in seen:
                seen.add(a['sig'])
                uniq.append(a)
        return {'atoms': uniq, 'n': n, 'nontrivial': nontriv, 'outcomes': outcomes, 'case': {'tree': hist}}


PATH_FORMS = ['abs', 'abs/', 'abs//', 'abs/.', 'pathlib', 'rel', 'rel/', './rel', 'pathlib-rel',
              'cwd:empty', 'cwd:.', 'cwd:./', 'cwd:pathlib', 'fsroot@cwd=root', 'fsroot@cwd=other',
              'after-empty-dir', 'after-unrelated-dir/']


class PathFormSpec(TreeSpec):
    """the same trees reached through every spelling of the search path entry: with a trailing separator, as a
    pathlib.Path, relative to the current directory, as '' / '.' for the current directory, behind another entry that
    does not provide the name - and the entry '/' which is *not* the current directory (F25)"""
    title = 'directory trees x dotted names x spelling of the search path entry'

    def __init__(self, name, light=False, depth=1):
        TreeSpec.__init__(self, name, depth)
        self.light = light
        self.rule = ('all trees of depth %d over names %r%s x %d entry forms %r x all dotted names of <= %d components over %r; expected = '
                     'importlib FileFinder on the directory the entry denotes; non-trivial = as for the tree specs' % (
                         depth, TOP_NAMES, ' whose second name is absent / a module' if light else
                         (' (second name absent / module / empty package)' if depth == 2 else ''), len(PATH_FORMS), PATH_FORMS,
                         2 if light else 3, LOOKUP))

    def histories(self, stats):
        if self.depth == 2:
            for h in TreeSpec.histories(self, stats):
                yield h
            return
        for t in gen_dir(1):
            if self.light and t['b_c'] not in (None, ('mod',)):
                continue
            yield tuple(sorted(t.items()))

    def lookup(self):
        return [n for n in lookup_names() if not self.light or n.count('.') <= 1]

    def run_case(self, hist):
        import pathlib
        from xdoctest.utils import util_import
        atoms = []
        n = nontriv = 0
        outcomes = {'found': 0, 'absent': 0}
        old_cwd = os.getcwd()
        with harness.scratch_dir('c17f') as base:
            rootname = 'root-%08x' % (zlib.crc32(repr(hist).encode()) & 0xffffffff)
            root = os.path.join(base, rootname)
            empty = os.path.join(base, 'empty')
            unrelated = os.path.join(base, 'unrelated')
            other = os.path.join(base, 'elsewhere')
            for d in (empty, unrelated, other):
                os.makedirs(d)
            open(os.path.join(unrelated, 'zzz.py'), 'w').close()
            materialize(root, hist)
            try:
                for form in PATH_FORMS:
                    cwd = {'rel': base, 'rel/': base, './rel': base, 'pathlib-rel': base, 'fsroot@cwd=other': other}.get(form, root if (
                        form.startswith('cwd:') or form == 'fsroot@cwd=root') else other)
                    entries = {
                        'abs': [root], 'abs/': [root + '/'], 'abs//': [root + '//'], 'abs/.': [root + '/.'], 'pathlib': [pathlib.Path(root)],
                        'rel': [rootname], 'rel/': [rootname + '/'], './rel': ['./' + rootname], 'pathlib-rel': [pathlib.Path(rootname)],
                        'cwd:empty': [''], 'cwd:.': ['.'], 'cwd:./': ['./'], 'cwd:pathlib': [pathlib.Path('.')],
                        'fsroot@cwd=root': ['/'], 'fsroot@cwd=other': ['/'],
                        'after-empty-dir': [empty, root], 'after-unrelated-dir/': [unrelated + '/', root + '/'],
                    }[form]
                    searched = '/' if form.startswith('fsroot') else root
                    os.chdir(cwd)
                    importlib.invalidate_caches()
                    for nm in self.lookup():
                        n += 1
                        exp = oracle(searched, nm)
                        try:
                            got = util_import.modname_to_modpath(nm, sys_path=list(entries))
                        except Exception as ex:
                            atoms.append({'sig': 'pathform:raises:%s:%s' % (form, type(ex).__name__), 'msg': '%s via %r: %r' % (nm, entries, ex)})
                            continue
                        outcomes['found' if got else 'absent'] += 1
                        if got or exp:
                            nontriv += 1
                        if (exp and os.path.realpath(exp)) != (got and os.path.realpath(got)):
                            kind = 'finds-what-python-would-not' if got and not exp else ('misses-importable' if exp and not got else 'other-file')
                            atoms.append({'sig': 'pathform:%s:%s' % (form, kind),
                                          'msg': 'modname_to_modpath(%r, sys_path=%r) with cwd %s = %r, the import system finds %r there' % (
                                              nm, entries, os.path.relpath(cwd, base), got, exp and os.path.relpath(exp, base))})
            finally:
                os.chdir(old_cwd)
        seen = set()
        uniq = []
        for a in atoms:
            if a['sig'] not in seen:
                seen.add(a['sig'])
                uniq.append(a)
        return {'atoms': uniq, 'n': n, 'nontrivial': nontriv, 'outcomes': outcomes, 'case': {'tree': hist}}


ROOT_TREES = [
    {'a': None, 'b_c': None},
    {'a': ('mod',), 'b_c': None},
    {'a': ('pkg', ()), 'b_c': None},
    {'a': ('pkg', (('a', ('mod',)), ('__main__', None))), 'b_c': ('mod',)},
    {'a': ('ns', (('a', ('mod',)), ('__main__', None))), 'b_c': None},
    {'a': ('mod+pkg', (('a', ('mod',)), ('__main__', ('mod',)))), 'b_c': ('pkg', ())},
]


def oracle_multi(roots, modname):
    """the import system over several search path entries: the top-level name is bound by the first entry that provides it
    as a regular module or package (namespace portions count as nothing, DESIGN 3.4); submodules are looked up in that
    package only"""
    top = modname.split('.')[0]
    for r in roots:
        if oracle(r, top) is not None:
            return oracle(r, modname)
    return None


class MultiRootSpec(TreeSpec):
    """two search path entries: a name bound by the first entry is not looked up in the second one (known finding F49: the
    library checks the whole dotted path in every entry on its own)"""
    title = 'pairs of directory trees as two search path entries x dotted names'

    def __init__(self, name):
        TreeSpec.__init__(self, name, 1)
        self.rule = ('all ordered pairs of %d trees as sys_path=[A, B] x all dotted names of <= 3 components over %r; expected = first '
                     'entry that binds the top-level name as a regular module / package, resolved part by part with FileFinder; '
                     'non-trivial = both entries hold something of that top-level name' % (len(ROOT_TREES), LOOKUP))

    def histories(self, stats):
        for i in range(len(ROOT_TREES)):
            for j in range(len(ROOT_TREES)):
                yield (i, j)

    def run_case(self, hist):
        from xdoctest.utils import util_import
        atoms = []
        n = nontriv = 0
        outcomes = {'found': 0, 'absent': 0}
        with harness.scratch_dir('c17m') as base:
            roots = [os.path.join(base, 'A'), os.path.join(base, 'B')]
            for r, i in zip(roots, hist):
                materialize(r, tuple(sorted(ROOT_TREES[i].items())))
            importlib.invalidate_caches()
            for nm in self.lookup():
                n += 1
                exp = oracle_multi(roots, nm)
                try:
                    got = util_import.modname_to_modpath(nm, sys_path=list(roots))
                except Exception as ex:
                    atoms.append({'sig': 'multiroot:raises:' + type(ex).__name__, 'msg': '%s: %r' % (nm, ex)})
                    continue
                outcomes['found' if got else 'absent'] += 1
                top = nm.split('.')[0]
                if all(os.path.exists(os.path.join(r, top)) or os.path.exists(os.path.join(r, top + '.py')) for r in roots):
                    nontriv += 1
                if (exp and os.path.realpath(exp)) != (got and os.path.realpath(got)):
                    if got and not exp and oracle(roots[0], top) is not None and os.path.realpath(got).startswith(os.path.realpath(roots[1])):
                        sig = 'multiroot:finds-submodule-in-a-later-entry-although-an-earlier-entry-binds-the-package'
                    else:
                        sig = 'multiroot:' + ('finds-what-python-would-not' if got and not exp else ('misses-importable' if exp and not got else 'other-file'))
                    atoms.append({'sig': sig, 'msg': 'modname_to_modpath(%r, sys_path=[A, B]) = %r, the import system finds %r' % (
                        nm, got and os.path.relpath(got, base), exp and os.path.relpath(exp, base))})
        seen = set()
        uniq = []
        for a in atoms:
            if a['sig'] not in seen:
                seen.add(a['sig'])
                uniq.append(a)
        return {'atoms': uniq, 'n': n, 'nontrivial': nontriv, 'outcomes': outcomes, 'case': {'A': ROOT_TREES[hist[0]], 'B': ROOT_TREES[hist[1]]}}


ODD = ['z__init__', 'y__main__', '__init__z', 'a']


class OddNameSpec(TreeSpec):
    """module names that merely contain / end in __init__ or __main__ (legal identifiers): they are ordinary modules"""
    title = 'trees with module names that end in __init__ / __main__'

    def __init__(self, name):
        TreeSpec.__init__(self, name, 1)
        self.rule = ('package a (with / without __init__.py) holding every subset of the modules %r, plus the same names at '
                     'the top level; all names a.<n> and <n>; non-trivial = as for the tree spec' % (ODD,))

    def histories(self, stats):
        import itertools
        for r in range(len(ODD) + 1):
            for sub in itertools.combinations(ODD, r):
                ch = tuple(sorted((n, ('mod',)) for n in sub))
                for kind in ('pkg', 'ns'):
                    yield tuple(sorted({'a': (kind, ch), 'z__init__': ('mod',) if r % 2 else None, 'y__main__': ('mod',)}.items()))

    def lookup(self):
        return ['a'] + ODD[:3] + ['a.' + n for n in ODD]


class ShadowSpec(Spec):
    """a module *name* handed to the collection entry points is resolved on the search path like an import; an
    unimportable entry of the same name in the current directory (plain directory, extension-less file) does not
    take its place"""
    prop = 'C17'
    name = 'cwd-shadow'
    title = 'module name given to parse_doctestables vs same-named entries in the current directory'
    KINDS = ['none', 'plain-dir', 'extensionless-file', 'dir-with-other-py']
    max_len = 3

    def __init__(self):
        self.rule = ('target in {top-level module, package, module in a package} on sys.path x entry of the same (first) name '
                     'in the cwd %r x cwd itself on sys.path {no, yes (after the real root)}; the doctest collected must be the '
                     'one of the importable module; non-trivial = entry present' % (self.KINDS,))

    def histories(self, stats):
        for target in ('module', 'package', 'submodule'):
            for k in self.KINDS:
                for cwd_on_path in (False, True):
                    yield (target, k, cwd_on_path)

    def hist_cost(self, hist):
        return 0

    def run_case(self, hist):
        import io
        import warnings
        import contextlib
        from xdoctest import core
        target, kind, cwd_on_path = hist
        atoms = []
        with harness.scratch_dir('c17s') as d:
            root = os.path.join(d, 'root')
            cwd_dir = os.path.join(d, 'work')
            os.makedirs(root)
            os.makedirs(cwd_dir)
            doc = 'def f():\n    """\n    >>> print(%r)\n    %s\n    """\n'
            if target == 'module':
                name, first = 'shq17', 'shq17'
                with open(os.path.join(root, 'shq17.py'), 'w') as f:
                    f.write(doc % ('tok_real', 'tok_real'))
            else:
                os.makedirs(os.path.join(root, 'shp17'))
                with open(os.path.join(root, 'shp17', '__init__.py'), 'w') as f:
                    f.write(doc % ('tok_real', 'tok_real'))
                with open(os.path.join(root, 'shp17', 'sub.py'), 'w') as f:
                    f.write(doc % ('tok_real', 'tok_real'))
                name, first = ('shp17', 'shp17') if target == 'package' else ('shp17.sub', 'shp17')
            ent = os.path.join(cwd_dir, first)
            if kind == 'plain-dir':
                os.makedirs(ent)
            elif kind == 'extensionless-file':
                with open(ent, 'w') as f:
                    f.write('not python\n')
            elif kind == 'dir-with-other-py':
                os.makedirs(ent)
                with open(os.path.join(ent, 'other.py'), 'w') as f:
                    f.write(doc % ('tok_shadow', 'tok_shadow'))
            old_cwd = os.getcwd()
            old_path = list(sys.path)
            try:
                os.chdir(cwd_dir)
                sys.path.insert(0, root)
                if cwd_on_path:
                    sys.path.insert(1, '')
                importlib.invalidate_caches()
                try:
                    with contextlib.redirect_stdout(io.StringIO()), warnings.catch_warnings():
                        warnings.simplefilter('ignore')
                        exs = list(core.parse_doctestables(name, style='freeform', analysis='static'))
                    toks = sorted(set(t for e in exs for t in ('tok_real', 'tok_shadow') if t in e.docsrc))
                    mods = sorted(set(os.path.relpath(e.modpath, d) for e in exs))
                    if toks != ['tok_real']:
                        atoms.append({'sig': 'shadow:wrong-thing-collected',
                                      'msg': 'parse_doctestables(%r) with a %s named %r in the cwd (cwd on sys.path: %s) collected %r from %r; '
                                             'the importable module is under root/' % (name, kind, first, cwd_on_path, toks, mods)})
                except BaseException as ex:
                    if type(ex).__name__ == 'CaseTimeout':
                        raise
                    atoms.append({'sig': 'shadow:raises:' + type(ex).__name__, 'msg': '%r (%s in cwd): %r' % (name, kind, ex)})
            finally:
                os.chdir(old_cwd)
                sys.path[:] = old_path
                harness.forget_modules('shq17', 'shp17')
        return {'atoms': atoms, 'outcome': 'ok' if not atoms else 'bad', 'case': {'target': target, 'cwd_entry': kind, 'cwd_on_path': cwd_on_path},
                'nontrivial': int(kind != 'none')}


EDIT_FILES = ['a.py', 'a/__init__.py', 'a/a.py', 'a/a/__init__.py', 'a/a/a.py', 'a/b_c.py']
EDIT_NAMES = ['a', 'a.a', 'a.a.a', 'a.b_c', 'a.a.b_c', 'b_c']


class EditSpec(Spec):
    """Explicit-state exploration of a *changing* tree at one fixed path: state = which of six files exist
    (the directories a/ and a/a/ always exist), event = create or delete one file.  After every event every
    name is resolved again and compared with a fresh FileFinder: an answer may only depend on the tree as
    it is now, never on what was resolved before (stale caches, remembered negatives)."""
    prop = 'C17'
    batch = 8
    title = 'resolution after file-system edits at the same path (histories of create/delete events)'

    def __init__(self, name, depth):
        self.name = name
        self.depth = depth
        self.max_len = depth + 1
        self.max_cost = 99
        self.rule = ('every initial subset of %r (64 states) followed by every sequence of <= %d create/delete events; all of '
                     '%r resolved before the first and after every event; non-trivial = histories with at least one event'
                     % (EDIT_FILES, depth, EDIT_NAMES))

    def init(self):
        return None

    def enabled(self, S, hist):
        if S is None:
            return [('init', m) for m in range(1 << len(EDIT_FILES))]
        return [('toggle', i) for i in range(len(EDIT_FILES))]

    def step(self, S, ev):
        if ev[0] == 'init':
            return ev[1]
        return S ^ (1 << ev[1])

    def canon(self, S):
        return S

    def final(self, S, hist):
        return len(hist) >= 1

    def cost(self, ev):
        return 0

    def run_case(self, hist):
        from xdoctest.utils import util_import
        atoms = []
        n = 0
        with harness.scratch_dir('c17e') as base:
            # one path per history, fixed *within* the history: what the library remembers from an earlier step of
            # the same history is what is being tested; anything remembered from another history would not
            # reproduce in a fresh replay
            root = os.path.join(base, 'root-%08x' % (zlib.crc32(repr(hist).encode()) & 0xffffffff))
            os.makedirs(os.path.join(root, 'a', 'a'))
            state = 0
            for step_i, ev in enumerate(hist):
                new = ev[1] if ev[0] == 'init' else state ^ (1 << ev[1])
                for i, f in enumerate(EDIT_FILES):
                    p = os.path.join(root, f)
                    if (new >> i) & 1 and not (state >> i) & 1:
                        with open(p, 'w') as fh:
                            fh.write('X = 1\n')
                    elif (state >> i) & 1 and not (new >> i) & 1:
                        os.unlink(p)
                state = new
                importlib.invalidate_caches()
                for nm in EDIT_NAMES:
                    n += 1
                    exp = oracle(root, nm)
                    try:
                        got = util_import.modname_to_modpath(nm, sys_path=[root])
                    except Exception as ex:
                        atoms.append({'sig': 'edits:raises:' + type(ex).__name__, 'msg': '%s: %r' % (nm, ex)})
                        continue
                    if (exp and os.path.realpath(exp)) != (got and os.path.realpath(got)):
                        kind = 'finds-what-python-would-not' if got and not exp else ('misses-importable' if exp and not got else 'other-file')
                        present = [f for i, f in enumerate(EDIT_FILES) if (state >> i) & 1]
                        atoms.append({'sig': 'edits:%s:%s' % (kind, 'initial' if step_i == 0 else 'after-edit'),
                                      'msg': 'step %d of %r, files now %r: modname_to_modpath(%r) = %r, the import system finds %r' % (
                                          step_i, hist, present, nm, got and os.path.relpath(got, root), exp and os.path.relpath(exp, root))})
        seen = set()
        uniq = [a for a in atoms if not (a['sig'] in seen or seen.add(a['sig']))]
        return {'atoms': uniq, 'n': n, 'nontrivial': int(len(hist) > 1), 'outcome': 'ok' if not uniq else 'bad',
                'case': {'history': hist}}


def specs(tier):
    if tier == 'thorough':
        return [TreeSpec('trees-depth1', 1), TreeSpec('trees-depth2-wide', 2, wide=True), OddNameSpec('odd-names'), ShadowSpec(), EditSpec('edits<=3', 3), PathFormSpec('path-forms'), PathFormSpec('path-forms-depth2', depth=2), MultiRootSpec('two-entries')]
    return [TreeSpec('trees-depth1', 1), TreeSpec('trees-depth2', 2), OddNameSpec('odd-names'), ShadowSpec(), EditSpec('edits<=2', 2), PathFormSpec('path-forms'), MultiRootSpec('two-entries')]
