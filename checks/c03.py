"""
C03 - exceptions are never swallowed; only a matching expected traceback passes.

The decision table  exception class x message x source x want form x flags x position  is enumerated
completely (each cell is one doctest run through DocTest.run with on_error=return and, for the cells
where the exception itself must surface, with on_error=raise).  The reference exception line comes from
traceback.format_exception_only on the same exception raised in a reference namespace; the verdict of a
traceback-shaped want comes from models.matchref.
"""
import re
import traceback

from xmc.core import Spec
from models import harness, matchref

LEVEL = 'model_checking'

PRE3 = '''
import json
class MyErr(Exception): pass
def boom(exc):
    raise exc
def noted(exc, *notes):
    for n in notes:
        exc.add_note(n)
    return exc
'''
CLASSES = {'builtin': 'ValueError', 'keyerr': 'KeyError', 'dotted': 'json.JSONDecodeError', 'moduser': 'MyErr',
           'docuser': 'DErr', 'os': 'FileNotFoundError'}
MSGS = {'plain': "'msg one'", 'empty': None, 'multi': "'line1\\nline2'", 'colon': "'a: b: c'", 'dots': "'a...b'",
        'num': '3', 'noted': "'msg one'"}      # 'noted': the exception carries a note (PEP 678): its report has two lines
HDR = 'Traceback (most recent call last):'

DIMS = [
    ('cls', ['builtin', 'keyerr', 'dotted', 'moduser', 'docuser', 'os']),
    ('msg', ['plain', 'empty', 'multi', 'colon', 'dots', 'num', 'noted']),
    ('src', ['raise', 'call', 'helper', 'noraise', 'await', 'gen']),
    ('want', ['none', 'exact', 'stack', 'dotstack', 'wrongmsg', 'wrongtype', 'header', 'nontb', 'ellmsg', 'nameonly',
              'indented', 'indented_wrongmsg', 'ell2over', 'dotstack0', 'dotstack0_wrongmsg', 'dotstack0_wrongtype',
              # a wildcard inside the type name (prefix of the name + '...'), with the right and with a wrong prefix
              'elltype', 'elltype_wrong', 'elltype_nomsg_wrong']),
    ('flags', [(), ('+IGNORE_EXCEPTION_DETAIL',), ('-ELLIPSIS',), ('+IGNORE_EXCEPTION_DETAIL', '-ELLIPSIS'),
               ('+IGNORE_WANT',)]),
    ('pos', ['only', 'middle', 'last']),
    ('fplace', ['block', 'inline']),        # the flags as a block directive above, or inline on the raising statement
]


def exc_expr(cls, msg):
    c = CLASSES[cls]
    if cls == 'dotted':
        e = "%s(%s, 'doc', 0)" % (c, MSGS[msg] or "''")
    else:
        e = '%s(%s)' % (c, MSGS[msg] or '')
    if msg == 'noted':
        e = "noted(%s, 'note a')" % e
    return e


_REF = {}


def ref_excline(expr):
    if expr not in _REF:
        ns = {'TRACE': []}
        exec(harness.PRE + PRE3 + '\nclass DErr(Exception): pass\n', ns)
        try:
            exec('raise ' + expr, ns)
        except Exception as ex:
            # the whole report of the exception itself: 'Type: message' (possibly several lines) plus its notes
            _REF[expr] = (''.join(traceback.format_exception_only(type(ex), ex)), type(ex).__name__)
    return _REF[expr]


def flags_dict(fl):
    d = dict(ELLIPSIS=True, NORMALIZE_WHITESPACE=True, IGNORE_WHITESPACE=False, NORMALIZE_REPR=True,
             DONT_ACCEPT_BLANKLINE=False)
    if '-ELLIPSIS' in fl:
        d['ELLIPSIS'] = False
    return d


def build(cfg):
    cls, msg, src, want, fl, pos = (cfg[k] for k in ('cls', 'msg', 'src', 'want', 'flags', 'pos'))
    inline = cfg.get('fplace', 'block') == 'inline'
    if inline and not fl:
        return None
    expr = exc_expr(cls, msg)
    excline, etype = ref_excline(expr)
    excline_ = excline.rstrip('\n')
    lines = []
    if not inline:
        for f in fl:
            lines.append('>>> # xdoctest: ' + f)
    pre = []
    if cls == 'docuser':
        lines.append('>>> class DErr(Exception): pass')
    if pos in ('middle', 'last'):
        lines.append('>>> T(1)')
        pre = [1]
    if src == 'raise':
        lines.append('>>> raise ' + expr)
    elif src == 'call':
        lines.append('>>> boom(%s)' % expr)
    elif src == 'helper':
        lines += ['>>> def h():', '...     raise ' + expr, '>>> h()']
    elif src == 'await':
        lines += ['>>> async def ah():', '...     raise ' + expr, '>>> await ah()']
    elif src == 'gen':
        lines += ['>>> def gen():', '...     yield 1', '...     raise ' + expr, '>>> list(gen())']
    elif src == 'noraise':
        lines.append('>>> e5 = T(5, %s)' % expr)       # builds the exception object, raises nothing
        pre = pre + [5]
    if inline:
        lines[-1] += '  # xdoctest: ' + ', '.join(fl)
    tname = excline_.split(':')[0].split('\n')[0]
    rest = excline_[len(tname):]
    if want == 'none':
        w = None
    elif want == 'exact':
        w = [HDR] + excline_.split('\n')
    elif want == 'stack':
        w = [HDR, '  File "<stdin>", line 1, in <module>', '    foo()'] + excline_.split('\n')
    elif want == 'dotstack':
        w = [HDR, '    ...'] + excline_.split('\n')
    elif want == 'dotstack0':         # the stack abbreviated by '...' written in the column of the header
        w = [HDR, '...'] + excline_.split('\n')
    elif want == 'dotstack0_wrongmsg':
        w = [HDR, '...', tname + ': other text']
    elif want == 'dotstack0_wrongtype':
        w = [HDR, '...'] + ('Zork' + excline_).split('\n')
    elif want == 'indented':          # the whole block sits 4 columns right of the prompt (legal: only a dedent ends a want)
        w = [HDR] + excline_.split('\n')
    elif want in ('wrongmsg', 'indented_wrongmsg'):
        w = [HDR, tname + ': other text']
    elif want == 'wrongtype':
        w = [HDR] + ('Zork' + excline_).split('\n')
    elif want == 'header':
        w = [HDR]
    elif want == 'nontb':
        w = ['some output text']
    elif want == 'ellmsg':
        w = [HDR, tname + ': ...'] if rest else None
    elif want == 'ell2over':
        # two wildcards and a literal ending; the middle piece only occurs inside that ending: asks for more
        # than the message holds
        first = excline_.split('\n')[0]
        tail = first[-3:] if rest and len(first) - len(tname) >= 5 and '\n' not in excline_ else None
        w = [HDR, tname + ': ...' + tail + '...' + tail] if tail and tail.strip() == tail else None
    elif want == 'nameonly':
        w = [HDR, tname.split('.')[-1]]
    elif want == 'elltype':
        w = [HDR, tname[:3] + '...' + ': other text']
    elif want == 'elltype_wrong':
        w = [HDR, 'Zor...' + ': other text']
    elif want == 'elltype_nomsg_wrong':
        w = [HDR, 'Zork...']
    if want != 'none' and w is None:
        return None
    if w and any(not l.strip() for l in w):
        return None
    if w:
        lines += [('    ' + l) for l in w] if want.startswith('indented') else w
    post = []
    if pos != 'last':
        lines.append('>>> T(9)')
        post = [9]
    fd = flags_dict(fl)
    ied = '+IGNORE_EXCEPTION_DETAIL' in fl
    if src == 'noraise':
        # code that does not raise: a want (of any form) is compared with (empty) output -> must fail,
        # unless IGNORE_WANT; no want -> passes
        if w is None or '+IGNORE_WANT' in fl:
            exp = ('pass',)
        else:
            exp = ('gotwant',)
    elif w is None or want in ('header', 'nontb'):
        exp = ('raised', etype)
    else:
        wmsg = '\n'.join(w[1:] if want not in ('stack', 'dotstack') and not want.startswith('dotstack0') else w[(3 if want == 'stack' else 2):])
        m = matchref.matches(excline, wmsg, fd)
        if not m and ied:
            # the type name without its dotted module path; the dots of a wildcard are not path separators
            g1 = re.split(r'(?<!\.)\.(?!\.)', excline_.split('\n')[0].split(':')[0])[-1]
            w1 = re.split(r'(?<!\.)\.(?!\.)', wmsg.split('\n')[0].split(':')[0])[-1]
            m = matchref.matches(g1, w1, fd)
        exp = ('pass',) if m else ('mismatch', etype)
    if '+IGNORE_WANT' in fl and src != 'noraise' and want in ('wrongmsg', 'wrongtype', 'nameonly', 'ellmsg', 'indented_wrongmsg', 'ell2over', 'dotstack0_wrongmsg', 'dotstack0_wrongtype',
                                                                        'elltype', 'elltype_wrong', 'elltype_nomsg_wrong'):
        exp = ('unspec',)       # DESIGN 3.1: IGNORE_WANT together with a wrong traceback
    return {'text': '\n'.join(lines), 'exp': exp, 'pre': pre, 'post': post, 'etype': etype}


class TableSpec(Spec):
    prop = 'C03'
    name = 'table'
    title = 'exception decision table'
    max_cost = 99

    def __init__(self):
        self.max_len = len(DIMS)
        self.rule = ('full product of %s (cells without a defined want are dropped); every cell run with on_error=return '
                     'and the must-surface cells also with on_error=raise; non-trivial = cell with a want' % (
                         ', '.join('%s(%d)' % (n, len(v)) for n, v in DIMS)))

    def init(self):
        return 0

    def enabled(self, S, hist):
        name, vals = DIMS[len(hist)]
        cfg = dict(zip([d[0] for d in DIMS], hist))
        out = []
        for v in vals:
            if name == 'msg' and cfg.get('cls') == 'os' and v != 'plain':
                continue
            out.append(v)
        return out

    def step(self, S, ev):
        return S + 1

    def final(self, S, hist):
        return len(hist) == len(DIMS)

    def run_case(self, hist):
        cfg = dict(zip([d[0] for d in DIMS], hist))
        b = build(cfg)
        if b is None:
            return {'atoms': [], 'outcome': 'undefined-cell', 'nontrivial': 0, 'n': 0}
        text, exp = b['text'], b['exp']
        case = {'doctest': text, 'expect': exp}
        r = harness.run_doctest(text, extra_pre=PRE3)
        if exp == ('unspec',):
            return {'atoms': [], 'outcome': 'unspecified', 'unspec': 1, 'nontrivial': 0, 'case': case}
        atoms = []
        nontrivial = cfg['want'] != 'none'
        if r.raised is not None:
            atoms.append({'sig': 'exc:run-raised:' + type(r.raised).__name__, 'msg': repr(r.raised)})
            return {'atoms': atoms, 'outcome': 'raised', 'case': case, 'nontrivial': nontrivial}
        v = harness.verdict_of(r.summary)
        tr = r.trace
        pre, post = b['pre'], b['post']
        if exp == ('pass',):
            if v != 'passed':
                atoms.append({'sig': 'exc:false-fail:' + cfg['want'],
                              'msg': 'expected pass, got %s (%s: %s)' % (v, r.exc_type, str(r.exc)[:200])})
            elif tr != pre + post:
                atoms.append({'sig': 'exc:statements-after-expected-exception-not-run',
                              'msg': 'trace %r, expected %r' % (tr, pre + post)})
        elif exp[0] == 'gotwant':
            if v != 'failed':
                atoms.append({'sig': 'exc:traceback-want-on-non-raising-code-passes', 'msg': 'verdict %s' % v})
            elif r.exc_type != 'GotWantException':
                atoms.append({'sig': 'exc:failed-with:' + str(r.exc_type), 'msg': str(r.exc)[:200]})
        elif exp[0] == 'raised':
            if v != 'failed':
                atoms.append({'sig': 'exc:swallowed:' + cfg['want'],
                              'msg': 'the doctest raises %s but the summary is %s' % (exp[1], v)})
            elif r.exc_type != exp[1]:
                atoms.append({'sig': 'exc:failed-with-other-exception',
                              'msg': 'failed with %s, the code raised %s' % (r.exc_type, exp[1])})
            elif tr != pre:
                atoms.append({'sig': 'exc:ran-after-failure', 'msg': 'trace %r, expected %r' % (tr, pre)})
            else:
                # the same cell with on_error='raise' must propagate that exception
                r2 = harness.run_doctest(text, on_error='raise', extra_pre=PRE3)
                if r2.raised is None or type(r2.raised).__name__ != exp[1]:
                    atoms.append({'sig': 'exc:on_error-raise-does-not-propagate',
                                  'msg': 'run(on_error=raise) gave %r, expected %s' % (r2.raised, exp[1])})
        else:  # mismatch: the text allows either the exception itself or a got/want error
            if v != 'failed':
                atoms.append({'sig': 'exc:false-pass:' + cfg['want'],
                              'msg': 'want does not match the raised %s but the summary is %s' % (exp[1], v)})
            elif r.exc_type not in (exp[1], 'GotWantException'):
                atoms.append({'sig': 'exc:failed-with-other-exception', 'msg': 'failed with %s' % r.exc_type})
            elif tr != pre:
                atoms.append({'sig': 'exc:ran-after-failure', 'msg': 'trace %r, expected %r' % (tr, pre)})
        return {'atoms': atoms, 'outcome': '%s/%s' % (exp[0], v), 'case': case, 'nontrivial': nontrivial}


class TwoExcSpec(Spec):
    """2-exception histories: an expected exception followed by an unexpected one and vice versa"""
    prop = 'C03'
    name = 'two-exceptions'
    title = 'expected exception followed by an unexpected one (and the reverse)'
    rule = ('all ordered pairs of raising statements, each with want in {none, exact, wrongmsg, nontb} and class in '
            '{ValueError, KeyError}; non-trivial = all')
    max_len = 2
    max_cost = 99
    WANTS = ['none', 'exact', 'wrongmsg', 'nontb']
    CLS = ['builtin', 'keyerr']

    def init(self):
        return 'run'

    def enabled(self, S, hist):
        if S != 'run':
            return ()
        return [(c, w) for c in self.CLS for w in self.WANTS]

    def step(self, S, ev):
        return 'run' if ev[1] == 'exact' else 'failed'

    def final(self, S, hist):
        return len(hist) == 2 or S == 'failed'

    def run_case(self, hist):
        lines = []
        exp_trace = []
        exp = 'passed'
        for i, (c, w) in enumerate(hist):
            expr = exc_expr(c, 'plain')
            excline, etype = ref_excline(expr)
            if exp == 'passed':
                exp_trace.append(10 + i)
            lines.append('>>> T(%d)' % (10 + i))
            lines.append('>>> raise ' + expr)
            if w == 'exact':
                lines += [HDR] + excline.rstrip('\n').split('\n')
            elif w == 'wrongmsg':
                lines += [HDR, etype + ': other text']
                if exp == 'passed':
                    exp = ('failed', (etype, 'GotWantException'))
            elif w == 'nontb':
                lines += ['some output']
                if exp == 'passed':
                    exp = ('failed', (etype,))
            elif exp == 'passed':
                exp = ('failed', (etype,))
        lines.append('>>> T(99)')
        if exp == 'passed':
            exp_trace.append(99)
        text = '\n'.join(lines)
        r = harness.run_doctest(text, extra_pre=PRE3)
        atoms = []
        v = harness.verdict_of(r.summary)
        if r.raised is not None:
            atoms.append({'sig': 'exc:run-raised:' + type(r.raised).__name__, 'msg': repr(r.raised)})
        elif exp == 'passed':
            if v != 'passed' or r.trace != exp_trace:
                atoms.append({'sig': 'exc2:expected-exceptions-do-not-pass', 'msg': '%s %r vs %r' % (v, r.trace, exp_trace)})
        else:
            if v != 'failed':
                atoms.append({'sig': 'exc2:swallowed', 'msg': 'summary %s' % v})
            elif r.exc_type not in exp[1]:
                atoms.append({'sig': 'exc2:failed-with-other-exception', 'msg': '%s not in %r' % (r.exc_type, exp[1])})
            elif r.trace != exp_trace:
                atoms.append({'sig': 'exc2:trace', 'msg': '%r vs %r' % (r.trace, exp_trace)})
        return {'atoms': atoms, 'outcome': v, 'case': {'doctest': text, 'expect': exp}, 'nontrivial': 1}


class SharedConfigSpec(Spec):
    """two doctests of one module share the run-wide configuration (as under the native runner / pytest): flags that
    doctest A switches on with *block* directives must not decide how doctest B's traceback want is judged"""
    prop = 'C03'
    name = 'shared-config'
    title = 'flags set by one doctest vs the traceback want of the next (shared default options)'
    # 'same:…': doctest A is doctest B itself (same exception, same want) under that block directive; 'same-after:…': B runs
    # first without, then under the directive (the judged run is the second one)
    A_DIRS = ['+IGNORE_EXCEPTION_DETAIL', '+IGNORE_WANT', '-ELLIPSIS', '+SKIP', 'same:-ELLIPSIS', 'same-after:-ELLIPSIS',
              'same:+IGNORE_EXCEPTION_DETAIL', 'same-after:+IGNORE_EXCEPTION_DETAIL']
    B_WANTS = ['wrongmsg', 'ellmsg', 'nontb', 'exact', 'wrongtype']
    CONFIGS = [None, {'ELLIPSIS': True}, {'NORMALIZE_WHITESPACE': True, 'IGNORE_EXCEPTION_DETAIL': False}]
    max_len = 3

    def __init__(self):
        self.rule = ('default options %r (one dict shared by both doctests) x block directive of A in %r x want form of B in %r: '
                     'B must get the verdict it gets when it runs alone; non-trivial = all' % (self.CONFIGS, self.A_DIRS, self.B_WANTS))

    def histories(self, stats):
        for c in range(len(self.CONFIGS)):
            for a in self.A_DIRS:
                for b in self.B_WANTS:
                    yield (c, a, b)

    def hist_cost(self, hist):
        return 0

    def run_case(self, hist):
        import copy
        from xdoctest.doctest_example import DocTest
        c, a, bw = hist
        cfg = {'cls': 'builtin', 'msg': 'plain', 'src': 'raise', 'want': bw, 'flags': (), 'pos': 'only', 'fplace': 'block'}
        tb = build(cfg)['text']
        if a.startswith('same:'):
            ta = '>>> # xdoctest: %s\n%s' % (a.split(':', 1)[1], tb)
        elif a.startswith('same-after:'):
            ta, tb = tb, '>>> # xdoctest: %s\n%s' % (a.split(':', 1)[1], tb)
        else:
            ta = '>>> # xdoctest: %s\n>>> raise ValueError("a msg")\nTraceback (most recent call last):\nValueError: a msg\n' % a

        def run_b(shared, first):
            out = []
            for text in ([ta, tb] if first else [tb]):
                t = DocTest(text)
                t.mode = 'native'
                t.config['colored'] = False
                if shared is not None:
                    t.config['default_runtime_state'] = shared
                t.global_namespace = harness.new_namespace(PRE3)
                try:
                    s_ = t.run(on_error='return', verbose=0)
                    out.append((harness.verdict_of(s_), type(s_['exc_info'][1]).__name__ if s_['exc_info'] else None))
                except BaseException as ex:
                    if type(ex).__name__ == 'CaseTimeout':
                        raise
                    out.append(('raised', type(ex).__name__))
            return out[-1]
        from xmc import core as xcore
        alone = run_b(copy.deepcopy(self.CONFIGS[c]), False)
        # the baseline run must not warm anything the library may remember per process
        xcore.reset_library_state()
        shared = copy.deepcopy(self.CONFIGS[c])
        after = run_b(shared, True)
        atoms = []
        if after != alone:
            atoms.append({'sig': 'shared-config:verdict-depends-on-previous-doctest',
                          'msg': 'default options %r: after a doctest with block directive %s the doctest\n%s\nis %r, alone it is %r' % (
                              self.CONFIGS[c], a, tb, after, alone)})
        if shared != self.CONFIGS[c]:
            atoms.append({'sig': 'shared-config:default-options-rewritten', 'msg': '%r -> %r' % (self.CONFIGS[c], shared)})
        return {'atoms': atoms, 'outcome': '%s/%s' % alone, 'case': {'A': ta, 'B': tb, 'options': self.CONFIGS[c]}, 'nontrivial': 1}


def specs(tier):
    return [TableSpec(), TwoExcSpec(), SharedConfigSpec()]
