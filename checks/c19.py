"""
C19 - the dump command emits valid Python holding every doctest statement in order.

Modules with 1-2 doctests from the C01 program generator (plus directives, star imports and force-disabled
doctests) are converted with runner.doctest_module(path, 'dump'); the output must parse with ast, hold exactly
one function per enabled doctest, and each function body (de-indented by 4) must contain the doctest's
executable lines minus star-import lines as an in-order subsequence, every want line as a '# ' comment after
its statement.
"""
import io
import os
import ast
import textwrap
import warnings
import contextlib

from xmc.core import Spec
from models import progs, harness
from checks import c01

LEVEL = 'model_checking'

EXTRA = {
    'none': [],
    'starimport': ['>>> from os.path import *'],
    'directive': ['>>> # xdoctest: +ELLIPSIS', '>>> x9 = 1  # xdoctest: +SKIP'],
    'disabled2nd': None,       # a second, force-disabled doctest in the module
    'second': None,            # a second enabled doctest in the module
    'starimport_mid': None,    # a star import after the first item (i.e. after its want, if it has one)
    'starimport_end': None,    # a star import as the last statement
    'twoblocks': None,         # a second Example block in the same docstring + a function named f_1
    'method': None,            # a class K with a method m + a function named K_m
    'latecomment': None,       # a second doctest with a later comment that starts like a force-disable marker
    'afterword': None,         # a second, freeform doctest under prose that ends in the word "subscript"
    'dotswant': None,          # a second doctest whose want starts with the bare wildcard line and goes on with '... tail'
    'skipopen_before': None,   # an *earlier* doctest of the module ends with a block +SKIP that is never switched off again
}


def exec_lines_of(doc_lines):
    out = []
    for l in doc_lines:
        if l.startswith(('>>> ', '... ')):
            out.append(l[4:])
        elif l in ('>>>', '...'):
            out.append('')
        elif l.startswith('    ') and out and not l.strip().startswith(('p', '1', '2', '3', '4', '5', '6', '7', '8', '9')):
            pass
    return out


class DumpSpec(c01.ProgSpec):
    prop = 'C19'
    title = 'dump of generated modules parsed with ast'

    def __init__(self, name, n_items, max_cost, min_items=1):
        c01.ProgSpec.__init__(self, name, n_items, max_cost, [(0, False)], min_items)
        self.max_len = n_items + 1
        self.rule = self.rule.replace('history = frame then', 'history = module extra %r then' % (list(EXTRA),))

    def init(self):
        return None

    def enabled(self, S, hist):
        if S is None:
            return [('extra', k) for k in EXTRA]
        return [it for it in c01.ITEMS if progs.item_enabled(S, it)]

    def cost(self, ev):
        if ev[0] == 'extra':
            return int(ev[1] != 'none')
        return progs.item_cost(ev)

    def step(self, S, ev):
        if ev[0] == 'extra':
            return progs.model_init()
        return progs.model_step(S, ev)

    def final(self, S, hist):
        return len(hist) - 1 >= self.min_items and hist[-1][3] == 'none'

    def run_case(self, hist):
        from xdoctest import runner
        extra = hist[0][1]
        items = [tuple(it) for it in hist[1:]]
        b = progs.build((0, False), items)
        doc = list(b['doc_lines'])
        if EXTRA.get(extra):
            doc = EXTRA[extra] + doc
        elif extra == 'starimport_mid':
            n1 = len(progs.build((0, False), items[:1])['doc_lines'])
            doc = doc[:n1] + ['>>> from os.path import *'] + doc[n1:]
        elif extra == 'starimport_end':
            doc = doc + ['>>> from os.path import *']
        q = '"""' if "'''" in '\n'.join(doc) else "'''"
        body = '\n'.join(('        ' + l) if l else '' for l in doc)
        src = 'def f():\n    r%s\n    Example:\n%s\n    %s\n' % (q, body, q)
        n_enabled = 1
        f_index = 0
        if extra == 'skipopen_before':
            src = ('def e0():\n    """\n    Example:\n        >>> zz = 1\n        >>> # xdoctest: +SKIP\n        >>> zz = slow()\n    """\n\n\n') + src
            n_enabled = 2
            f_index = 1
        if extra == 'disabled2nd':
            src += '\n\ndef g():\n    """\n    Example:\n        >>> # DISABLE_DOCTEST\n        >>> zz = 1\n    """\n'
        elif extra == 'second':
            src += '\n\ndef g():\n    """\n    Example:\n        >>> zz = 1\n        >>> print(zz)\n        1\n    """\n'
            n_enabled = 2
        elif extra == 'twoblocks':
            src = src.rstrip('\n')[:-3].rstrip() + '\n\n    Example:\n        >>> zz = 2\n    ' + q + '\n'
            src += '\n\ndef f_1():\n    """\n    Example:\n        >>> zz = 3\n    """\n'
            n_enabled = 3
        elif extra == 'method':
            src += ('\n\nclass K:\n    def m(self):\n        """\n        Example:\n            >>> zz = 4\n        """\n'
                    '\n\ndef K_m():\n    """\n    Example:\n        >>> zz = 5\n    """\n')
            n_enabled = 3
        elif extra == 'latecomment':
            src += ('\n\ndef g():\n    """\n    Example:\n        >>> zz = 1\n        >>> # Failing inputs are handled below\n'
                    '        >>> # script authors: see above\n        >>> print(zz)\n        1\n    """\n')
            n_enabled = 2
        elif extra == 'afterword':
            src += ('\n\ndef g():\n    """\n    The index is written as a subscript\n\n    >>> zz = 1\n    >>> print(zz)\n    1\n    """\n')
            n_enabled = 2
        elif extra == 'dotswant':
            src += ("\n\ndef g():\n    '''\n    Example:\n        >>> print('...'); print('... tail')\n        ...\n        ... tail\n    '''\n")
            n_enabled = 2
        style = 'auto' if extra == 'afterword' else 'google'
        case = {'module': src}
        atoms = []
        nontrivial = len(b['stmts']) >= 2 or bool(b['wants'])
        with harness.scratch_dir('c19') as d:
            modname = harness.unique_modname('m19', src)
            p = os.path.join(d, modname + '.py')
            with open(p, 'w') as f:
                f.write(src)
            buf = io.StringIO()
            try:
                with contextlib.redirect_stdout(buf), warnings.catch_warnings():
                    warnings.simplefilter('ignore')
                    runner.doctest_module(p, 'dump', argv=[], style=style, verbose=0)
            except BaseException as ex:
                if type(ex).__name__ == 'CaseTimeout':
                    raise
                atoms.append({'sig': 'dump:raises:' + type(ex).__name__, 'msg': repr(ex)})
                return {'atoms': atoms, 'outcome': 'raises', 'case': case, 'nontrivial': nontrivial}
            finally:
                harness.forget_modules(modname)
        out = buf.getvalue()
        case['dump'] = out
        try:
            tree = ast.parse(out)
        except SyntaxError as ex:
            atoms.append({'sig': 'dump:invalid-python', 'msg': '%r\n%s' % (ex, out)})
            return {'atoms': atoms, 'outcome': 'syntax-error', 'case': case, 'nontrivial': nontrivial}
        fdefs = [x for x in tree.body if isinstance(x, ast.FunctionDef)]
        if len(set(f.name for f in fdefs)) != len(fdefs):
            # two definitions of one name are one function: the earlier doctest is lost when the module is used
            atoms.append({'sig': 'dump:two-test-functions-share-a-name', 'msg': '%r' % ([f.name for f in fdefs],)})
            return {'atoms': atoms, 'outcome': 'count', 'case': case, 'nontrivial': nontrivial}
        if len(fdefs) != n_enabled or len(tree.body) != n_enabled:
            atoms.append({'sig': 'dump:function-count', 'msg': '%d functions (%d top-level nodes) for %d enabled doctest(s)' % (
                len(fdefs), len(tree.body), n_enabled)})
            return {'atoms': atoms, 'outcome': 'count', 'case': case, 'nontrivial': nontrivial}
        try:
            compile(out, '<dump>', 'exec')
        except SyntaxError as ex:
            top_await = any(isinstance(n, (ast.Await, ast.AsyncWith, ast.AsyncFor)) and not _inside_async(tree, n) for n in ast.walk(tree))
            # known finding F53: a doctest using top-level await is dumped into a plain def
            atoms.append({'sig': 'dump:does-not-compile' + (':top-level-await-in-plain-def' if top_await else ''), 'msg': '%r\n%s' % (ex, out)})
        if extra == 'dotswant':
            glines = [l.strip() for l in out.split('\n')[fdefs[1].lineno:]]
            if '# ... tail' not in glines or '# ...' not in glines or 'tail' in glines:
                atoms.append({'sig': 'dump:want-starting-with-dots-not-preserved', 'msg': out})
        # body of the first function
        f0 = fdefs[f_index]
        lines = out.split('\n')
        end = fdefs[f_index + 1].lineno - 1 if len(fdefs) > f_index + 1 else len(lines)
        fbody = lines[f0.lineno:end]
        fbody = [l[4:] if l.startswith('    ') else l for l in fbody]
        exp = [e for e in exec_lines_of(doc) if e.strip() and ' import *' not in e]
        it = iter(fbody)
        missing = [e for e in exp if not any(e == bl for bl in it)]
        if missing:
            atoms.append({'sig': 'dump:statement-lost-or-reordered', 'msg': 'first missing %r\n%s' % (missing[0], out)})
        else:
            # anything else in the body must be docstring, import header or comment
            allowed = set(exp)
            in_doc = False
            for bl in fbody:
                s = bl.strip()
                if s.startswith('"""') or s.startswith("'''"):
                    if not (len(s) > 3 and s.endswith(s[:3])):
                        in_doc = not in_doc
                    continue
                if in_doc or not s or s.startswith('#') or bl in allowed:
                    continue
                if s.startswith('from %s import ' % modname):
                    continue
                # continuation lines of multi-line strings (unprefixed inner lines) are source too
                if any(bl.strip() == e.strip() for e in exec_lines_of(doc)) or any(bl.strip() in l for l in doc):
                    continue
                atoms.append({'sig': 'dump:foreign-line-in-body', 'msg': '%r\n%s' % (bl, out)})
                break
            if any(' import *' in bl for bl in fbody):
                atoms.append({'sig': 'dump:star-import-kept', 'msg': out})
            # wants as comments after their statement
            pos = 0
            for idx, w in b['wants']:
                for wl in w.split('\n')[:-1]:
                    c = '# ' + wl
                    try:
                        pos = fbody.index(c, pos) + 1
                    except ValueError:
                        atoms.append({'sig': 'dump:want-not-preserved', 'msg': '%r not found (in order) in\n%s' % (c, out)})
                        break
        return {'atoms': atoms[:3], 'outcome': '%d' % len(fdefs), 'case': case, 'nontrivial': nontrivial}


def _inside_async(tree, node):
    for fn in ast.walk(tree):
        if isinstance(fn, ast.AsyncFunctionDef):
            if any(n is node for n in ast.walk(fn)):
                return True
    return False


def specs(tier):
    if tier == 'thorough':
        return [DumpSpec('dump-len2', 2, 99), DumpSpec('dump-len3', 3, 3, min_items=3)]
    return [DumpSpec('dump-len2', 2, 3), DumpSpec('dump-len3', 3, 2, min_items=3)]
