"""
C15 - the pytest plugin and the native runner give the same verdict for every doctest.

The same generated module (doctests with by-construction outcomes, incl. two whose outcome depends on a
default directive) is run through `pytest --xdoctest` (pytest.main in-process with a recording plugin, cwd =
scratch, no ini file) and through xdoctest.__main__.main for every style and --options setting; identifiers,
per-identifier outcomes and exit codes must agree with each other and with the by-construction outcome.
"""
import io
import os
import re
import sys
import warnings
import contextlib

from xmc.core import Spec
from models import harness, outcomes

LEVEL = 'model_checking'
KINDS = outcomes.KINDS + outcomes.EXTRA_KINDS
STYLES = ['auto', 'google', 'freeform']
OPTIONS = [None, '+SKIP', '-ELLIPSIS', '+IGNORE_WHITESPACE', 'env:+SKIP']
NATIVE_RE = re.compile(r'^\* (SUCCESS|FAILURE|SKIPPED): .*::(\S+)$', re.M)


class Rec(object):
    def __init__(self):
        self.out = {}

    def pytest_runtest_logreport(self, report):
        if report.when == 'call' or (report.when == 'setup' and report.outcome != 'passed'):
            self.out[report.nodeid.split('::', 1)[1]] = report.outcome


def run_pytest(d, fname, style, opt):
    import pytest
    r = Rec()
    buf = io.StringIO()
    args = ['--xdoctest', '--xdoctest-style=' + style, *harness.PYTEST_ISOLATION_ARGS, '-q', '--rootdir', d,
            '-c', '/dev/null', fname]
    if opt and not opt.startswith('env:'):
        args.insert(2, '--xdoctest-options=' + opt)
    with contextlib.redirect_stdout(buf), contextlib.redirect_stderr(buf), harness.fresh_process_warning_filters(), env_options(opt):
        rc = pytest.main(args, plugins=[r])
    return r.out, int(rc), buf.getvalue()


@contextlib.contextmanager
def env_options(opt):
    """'env:<options>': the default options come from the documented environment variable instead of the command line"""
    old = os.environ.pop('XDOCTEST_OPTIONS', None)
    if opt and opt.startswith('env:'):
        os.environ['XDOCTEST_OPTIONS'] = opt[4:]
    try:
        yield
    finally:
        os.environ.pop('XDOCTEST_OPTIONS', None)
        if old is not None:
            os.environ['XDOCTEST_OPTIONS'] = old


def run_native(fname, style, opt):
    from xdoctest.__main__ import main as xmain
    buf = io.StringIO()
    argv = ['xdoctest', fname, 'all', '--style=' + style, '--verbose=1', '--nocolor']
    if opt and not opt.startswith('env:'):
        argv.append('--options=' + opt)
    with contextlib.redirect_stdout(buf), contextlib.redirect_stderr(buf), harness.fresh_process_warning_filters(), env_options(opt):
        try:
            rc = xmain(argv)
        except SystemExit as ex:
            rc = ex.code
    nat = {}
    for m in NATIVE_RE.finditer(buf.getvalue()):
        nat[m.group(2)] = {'SUCCESS': 'passed', 'FAILURE': 'failed', 'SKIPPED': 'skipped'}[m.group(1)]
    return nat, rc, buf.getvalue()


class FrontEndSpec(Spec):
    prop = 'C15'
    title = 'pytest --xdoctest vs python -m xdoctest <module> all'
    batch = 1

    def __init__(self, name, max_len, min_len=1):
        self.name = name
        self.max_len = max_len
        self.min_len = min_len
        self.max_cost = 3 if max_len <= 2 else 4
        self.rule = ('history = sequence of <= %d doctests over the outcome kinds %r (cost: pass 0, the classic kinds 1, the rest 2; '
                     'total cost <= %d), each module run under styles %r x '
                     'options %r through both front ends; non-trivial = configuration with at least two different '
                     'outcomes or an option that changes an outcome' % (max_len, KINDS, self.max_cost, STYLES, OPTIONS))

    def cost(self, ev):
        return outcomes.kind_cost(ev) if ev in outcomes.KINDS else 2

    def init(self):
        return (0, 0, 0, 0)

    def enabled(self, S, hist):
        return KINDS

    def step(self, S, ev):
        p, f, s, d = S
        o = outcomes.outcome(ev)
        return (p + (o == 'passed'), f + (o == 'failed'), s + (o == 'skipped'), d + (o == 'disabled'))

    def final(self, S, hist):
        return len(hist) >= self.min_len

    def run_case(self, hist):
        kinds = list(hist)
        atoms = []
        n = 0
        nontriv = 0
        with harness.scratch_dir('c15') as d:
            tracefile = os.path.join(d, 'trace.txt')
            src = outcomes.module_source(kinds, tracefile)
            modname = harness.unique_modname('m15', src)
            fname = modname + '.py'
            with open(os.path.join(d, fname), 'w') as f:
                f.write(src)
            cwd = os.getcwd()
            os.chdir(d)
            try:
                for style in STYLES:
                    for opt in OPTIONS:
                        n += 1
                        opt_ = opt[4:] if (opt and opt.startswith('env:')) else opt
                        exp = {outcomes.fname(j) + ':0': outcomes.outcome(kd, opt_) for j, kd in enumerate(kinds)}
                        exp_p = {k: ('skipped' if v == 'disabled' else v) for k, v in exp.items()}
                        exp_n = {k: v for k, v in exp.items() if v != 'disabled'}
                        anyfail = any(v == 'failed' for v in exp.values())
                        if len(set(exp.values())) >= 2 or (opt and exp != {outcomes.fname(j) + ':0': outcomes.outcome(kd) for j, kd in enumerate(kinds)}):
                            nontriv += 1
                        tag = '%s/%s' % (style, opt)
                        try:
                            po, rc_p, pout = run_pytest(d, fname, style, opt)
                        except BaseException as ex:
                            if type(ex).__name__ == 'CaseTimeout':
                                raise
                            atoms.append({'sig': 'pytest:raises:' + type(ex).__name__, 'msg': '%s %r' % (tag, ex)})
                            continue
                        finally:
                            harness.forget_modules(modname)
                        try:
                            no, rc_n, nout = run_native(fname, style, opt)
                        except BaseException as ex:
                            if type(ex).__name__ == 'CaseTimeout':
                                raise
                            atoms.append({'sig': 'native:raises:' + type(ex).__name__, 'msg': '%s %r' % (tag, ex)})
                            continue
                        finally:
                            harness.forget_modules(modname)
                        if os.path.exists(tracefile):
                            os.unlink(tracefile)
                        # the two front ends against each other
                        ids_p = sorted(k for k in po)
                        ids_n = sorted(no)
                        dis = sorted(k for k, v in exp.items() if v == 'disabled')
                        if sorted(set(ids_p) - set(dis)) != ids_n:
                            atoms.append({'sig': 'frontends:identifiers-differ',
                                          'msg': '%s: pytest %r native %r (force-disabled: %r)' % (tag, ids_p, ids_n, dis)})
                        else:
                            diff = {k: (po[k], no[k]) for k in ids_n if po.get(k) != no[k]}
                            if diff:
                                atoms.append({'sig': 'frontends:outcomes-differ',
                                              'msg': '%s: (pytest, native) %r' % (tag, diff)})
                        if (rc_p != 0) != (rc_n != 0):
                            atoms.append({'sig': 'frontends:exit-status-differs', 'msg': '%s: pytest %r native %r' % (tag, rc_p, rc_n)})
                        # each against the by-construction outcome
                        if po != exp_p:
                            atoms.append({'sig': 'pytest:outcomes', 'msg': '%s: %r expected %r' % (tag, po, exp_p)})
                        if no != exp_n:
                            atoms.append({'sig': 'native:outcomes', 'msg': '%s: %r expected %r' % (tag, no, exp_n)})
                        if (rc_p != 0) != anyfail:
                            atoms.append({'sig': 'pytest:exit-status', 'msg': '%s: rc=%r anyfail=%s\n%s' % (tag, rc_p, anyfail, pout[-400:])})
                        if (rc_n != 0) != anyfail:
                            atoms.append({'sig': 'native:exit-status', 'msg': '%s: rc=%r anyfail=%s' % (tag, rc_n, anyfail)})
            finally:
                os.chdir(cwd)
                harness.forget_modules(modname)
        seen = set()
        uniq = []
        for a in atoms:
            if a['sig'] not in seen:
                seen.add(a['sig'])
                uniq.append(a)
        S = self.init()
        for k in kinds:
            S = self.step(S, k)
        return {'atoms': uniq, 'n': n, 'outcome': '%d/%d/%d/%d' % S, 'case': {'kinds': kinds, 'module': src},
                'nontrivial': nontriv}


PYTEST_LINE_RE = re.compile(r'^(\S+\.py)::(\S+) (PASSED|FAILED|SKIPPED|ERROR)', re.M)


class SubprocessSpec(FrontEndSpec):
    """the same comparison with two *real* processes (`python -m pytest --xdoctest -v` and `python -m xdoctest`):
    binds the in-process runs above to the command lines the property talks about"""
    title = 'pytest --xdoctest vs python -m xdoctest in real subprocesses'
    batch = 1

    def __init__(self, name, max_len, styles, options, max_cost=99):
        FrontEndSpec.__init__(self, name, max_len)
        self.styles = styles
        self.options = options
        self.max_cost = max_cost
        self.rule = ('modules of <= %d doctests (cost <= %d) x styles %r x options %r, both front ends as subprocesses; '
                     'non-trivial = module with at least two different outcomes' % (max_len, max_cost, styles, options))

    def cost(self, ev):
        return outcomes.kind_cost(ev)

    def run_case(self, hist):
        import subprocess
        from xmc import core
        kinds = list(hist)
        atoms = []
        n = 0
        with harness.scratch_dir('c15s') as d:
            tracefile = os.path.join(d, 'trace.txt')
            src = outcomes.module_source(kinds, tracefile)
            fname = 'mod15s.py'
            with open(os.path.join(d, fname), 'w') as f:
                f.write(src)
            env = {k: v for k, v in os.environ.items() if not k.startswith(('XDOCTEST_', 'PYTEST_'))}
            env['PYTHONPATH'] = os.path.join(core.REPO, 'src')
            for style in self.styles:
                for opt in self.options:
                    n += 1
                    tag = '%s/%s' % (style, opt)
                    via_env = bool(opt) and opt.startswith('env:')
                    env_run = dict(env)
                    if via_env:
                        # the default options come from the documented environment variable, not from the command line
                        env_run['XDOCTEST_OPTIONS'] = opt[4:]
                        opt = opt[4:]
                    exp = {outcomes.fname(j) + ':0': outcomes.outcome(kd, opt) for j, kd in enumerate(kinds)}
                    exp_p = {k: ('skipped' if v == 'disabled' else v) for k, v in exp.items()}
                    exp_n = {k: v for k, v in exp.items() if v != 'disabled'}
                    anyfail = any(v == 'failed' for v in exp.values())
                    pa = [sys.executable, '-m', 'pytest', '--xdoctest', '--xdoctest-style=' + style, *harness.PYTEST_ISOLATION_ARGS,
                          '-v', '--rootdir', d, '-c', '/dev/null', fname] + (['--xdoctest-options=' + opt] if (opt and not via_env) else [])
                    na = [sys.executable, '-m', 'xdoctest', fname, 'all', '--style=' + style, '--verbose=1', '--nocolor'] + (
                        ['--options=' + opt] if (opt and not via_env) else [])
                    rp = subprocess.run(pa, cwd=d, env=env_run, capture_output=True, text=True, timeout=300)
                    rn = subprocess.run(na, cwd=d, env=env_run, capture_output=True, text=True, timeout=300)
                    po = {m.group(2): {'PASSED': 'passed', 'FAILED': 'failed', 'SKIPPED': 'skipped', 'ERROR': 'error'}[m.group(3)]
                          for m in PYTEST_LINE_RE.finditer(rp.stdout)}
                    no = {}
                    for m in NATIVE_RE.finditer(rn.stdout):
                        no[m.group(2)] = {'SUCCESS': 'passed', 'FAILURE': 'failed', 'SKIPPED': 'skipped'}[m.group(1)]
                    if po != exp_p:
                        atoms.append({'sig': 'subprocess:pytest:outcomes', 'msg': '%s: %r expected %r\n%s' % (tag, po, exp_p, rp.stdout[-500:])})
                    if no != exp_n:
                        atoms.append({'sig': 'subprocess:native:outcomes', 'msg': '%s: %r expected %r\n%s' % (tag, no, exp_n, rn.stdout[-500:])})
                    if (rp.returncode != 0) != anyfail and not (not exp_p or all(v == 'skipped' for v in exp_p.values())):
                        atoms.append({'sig': 'subprocess:pytest:exit-status', 'msg': '%s: rc=%r anyfail=%s' % (tag, rp.returncode, anyfail)})
                    if (rn.returncode != 0) != anyfail:
                        atoms.append({'sig': 'subprocess:native:exit-status', 'msg': '%s: rc=%r anyfail=%s' % (tag, rn.returncode, anyfail)})
                    if rn.returncode not in (0, 1) or 'Traceback (most recent call last)' in rn.stderr:
                        atoms.append({'sig': 'subprocess:native:crash', 'msg': rn.stderr[-500:]})
                    if 'INTERNALERROR' in rp.stdout + rp.stderr:
                        atoms.append({'sig': 'subprocess:pytest:internal-error', 'msg': (rp.stdout + rp.stderr)[-600:]})
        seen = set()
        uniq = [a for a in atoms if not (a['sig'] in seen or seen.add(a['sig']))]
        S = self.init()
        for k in kinds:
            S = self.step(S, k)
        return {'atoms': uniq, 'n': n, 'outcome': '%d/%d/%d/%d' % S, 'case': {'kinds': kinds, 'module': src},
                'nontrivial': int(len(set(outcomes.outcome(k) for k in kinds)) >= 2)}


class CmdNameSpec(FrontEndSpec):
    """the same comparison for modules whose callables bear the names of the runner's commands (all, list, dump)"""
    title = 'pytest --xdoctest vs native runner for callables named all / list / dump'

    def __init__(self, name, max_len):
        FrontEndSpec.__init__(self, name, max_len)
        self.rule = 'callables named %r: ' % (outcomes.COMMAND_NAMES,) + self.rule

    def run_case(self, hist):
        outcomes.NAMES = outcomes.COMMAND_NAMES
        try:
            return FrontEndSpec.run_case(self, hist)
        finally:
            outcomes.NAMES = None


def specs(tier):
    if tier == 'thorough':
        return [FrontEndSpec('modules<=3', 3), SubprocessSpec('subprocess<=2', 2, STYLES, OPTIONS), CmdNameSpec('command-names<=2', 2)]
    return [FrontEndSpec('modules<=2', 2), SubprocessSpec('subprocess<=2', 2, ['auto'], [None], max_cost=2), CmdNameSpec('command-names<=1', 1)]
