"""
C10 - native runner tallies and exit status agree with the per-doctest outcomes.

A module is a sequence of doctests with by-construction outcomes; the tally automaton (n_pass, n_fail,
n_skip, failed names) is the reference model.  Every sequence up to the bound is written to a file and run
through xdoctest.doctest_module and xdoctest.__main__.main (in-process, cwd = scratch) for the commands
all / list / each name and verbosity 0 / 1 / 3; a trace file written by the doctests shows what really ran.
"""
import io
import os
import re
import sys
import warnings
import contextlib

from xmc.core import Spec
from models import harness, outcomes

LEVEL = 'model_checking'
SUMMARY_RE = re.compile(r'^=== (.*) in [\d.]+ seconds ===$', re.M)


def run_native(path, command, verbose, style='auto', options=None, use_main=False, dash_m=False):
    import xdoctest
    from xdoctest.__main__ import main as xmain
    buf = io.StringIO()
    res = {'raised': None, 'rc': None, 'summary': None}
    with contextlib.redirect_stdout(buf), contextlib.redirect_stderr(buf), harness.fresh_process_warning_filters():
        try:
            if use_main:
                # the module may be given positionally or with -m / --modname; the command stays positional
                argv = (['xdoctest', '-m', path, command] if dash_m else ['xdoctest', path, command]) + ['--style=' + style, '--verbose=%d' % verbose, '--nocolor']
                if options:
                    argv.append('--options=' + options)
                res['rc'] = xmain(argv)
            else:
                res['summary'] = xdoctest.doctest_module(path, command=command, argv=[], verbose=verbose, style=style)
        except SystemExit as ex:
            res['rc'] = ex.code
        except BaseException as ex:
            if type(ex).__name__ == 'CaseTimeout':
                raise
            res['raised'] = ex
    res['out'] = buf.getvalue()
    return res


class TallySpec(Spec):
    prop = 'C10'
    title = 'modules of doctests with by-construction outcomes through the native runner'
    batch = 2

    def __init__(self, name, max_len, min_len=1, max_cost=99):
        self.name = name
        self.max_len = max_len
        self.min_len = min_len
        self.max_cost = max_cost
        self.rule = ('history = sequence of <= %d doctests over the outcome kinds %r (cost: pass 0, the eight classic kinds 1, '
                     'the rest 2; total cost <= MAXCOST); each module is run with command '
                     'all (verbosity 0/1/3, API and CLI entry), list, and each doctest name; non-trivial = module '
                     'mixing at least two different outcomes' % (max_len, outcomes.KINDS)).replace('MAXCOST', str(max_cost))

    def init(self):
        return (0, 0, 0, 0)      # passed, failed, skipped, disabled

    def enabled(self, S, hist):
        return outcomes.KINDS

    def cost(self, ev):
        return outcomes.kind_cost(ev)

    def step(self, S, ev):
        p, f, s, d = S
        o = outcomes.outcome(ev)
        return (p + (o == 'passed'), f + (o == 'failed'), s + (o == 'skipped'), d + (o == 'disabled'))

    def final(self, S, hist):
        return len(hist) >= self.min_len

    def run_case(self, hist):
        kinds = list(hist)
        S = self.init()
        for k in kinds:
            S = self.step(S, k)
        n_pass, n_fail, n_skip, n_dis = S
        atoms = []
        n_runs = 0
        with harness.scratch_dir('c10') as d:
            tracefile = os.path.join(d, 'trace.txt')
            src = outcomes.module_source(kinds, tracefile)
            modname = harness.unique_modname('m10', src)
            path = os.path.join(d, modname + '.py')
            with open(path, 'w') as f:
                f.write(src)
            cwd = os.getcwd()
            os.chdir(d)

            def trace():
                if os.path.exists(tracefile):
                    with open(tracefile) as f:
                        t = f.read()
                    os.unlink(tracefile)
                    return t
                return ''
            try:
                names = [outcomes.fname(j) for j in range(len(kinds))]
                exp_failed = [n for n, k in zip(names, kinds) if outcomes.outcome(k) == 'failed']
                exp_trace = ''.join(n + ';' for n, k in zip(names, kinds) if outcomes.traces(k))
                # ---- all ----
                for verbose, use_main, options in ((0, False, None), (0, True, None), (1, False, None), (1, True, None),
                                                   (3, False, None), (3, True, None), (1, True, '+ELLIPSIS'), (1, 'dash-m', None)):
                    if True:
                        # the last but one run passes an option that restates a default: nothing may change; the last one
                        # names the module with -m
                        r = run_native(path, 'all', verbose, use_main=bool(use_main), options=options, dash_m=use_main == 'dash-m')
                        n_runs += 1
                        harness.forget_modules(modname)
                        tr = trace()
                        tag = 'all'
                        if r['raised'] is not None:
                            atoms.append({'sig': '%s:raises:%s' % (tag, type(r['raised']).__name__), 'msg': repr(r['raised'])})
                            continue
                        if tr != exp_trace:
                            atoms.append({'sig': 'all:executed-set', 'msg': 'doctests executed %r, expected %r (verbose=%d)' % (tr, exp_trace, verbose)})
                        if use_main:
                            if (r['rc'] != 0) != (n_fail > 0):
                                atoms.append({'sig': 'all:exit-status', 'msg': 'exit status %r with %d failing doctest(s)' % (r['rc'], n_fail)})
                            m = SUMMARY_RE.findall(r['out'])
                            n_en = len(kinds) - n_dis
                            if n_en > 0 and verbose >= 1:      # at verbosity 0 the runner prints no summary
                                if not m:
                                    atoms.append({'sig': 'all:no-summary-line', 'msg': r['out'][-300:]})
                                else:
                                    got = {}
                                    for part in m[-1].split(', '):
                                        num, word = part.split(' ')
                                        got[word] = int(num)
                                    exp = {k: v for k, v in (('failed', n_fail), ('passed', n_pass), ('skipped', n_skip)) if v}
                                    got.pop('warnings', None)
                                    if got != exp:
                                        atoms.append({'sig': 'all:summary-line', 'msg': 'summary line says %r, expected %r' % (got, exp)})
                        else:
                            s = r['summary'] or {}
                            n_en = len(kinds) - n_dis
                            if s.get('n_total') != n_en:
                                atoms.append({'sig': 'all:n_total', 'msg': 'n_total=%r, enabled doctests=%d' % (s.get('n_total'), n_en)})
                            tallies = (s.get('n_passed'), s.get('n_failed'), s.get('n_skipped'))
                            if tallies != (n_pass, n_fail, n_skip):
                                atoms.append({'sig': 'all:tallies', 'msg': '(passed, failed, skipped)=%r, expected %r' % (tallies, (n_pass, n_fail, n_skip))})
                            got_failed = [e.callname for e in s.get('failed', [])]
                            if got_failed != exp_failed:
                                atoms.append({'sig': 'all:failed-list', 'msg': 'failed=%r, expected %r' % (got_failed, exp_failed)})
                # ---- list ----
                for verbose in (1, 3, 'dash-m'):
                    r = run_native(path, 'list', 1, use_main=True, dash_m=True) if verbose == 'dash-m' else run_native(path, 'list', verbose)
                    n_runs += 1
                    harness.forget_modules(modname)
                    tr = trace()
                    if r['raised'] is not None:
                        atoms.append({'sig': 'list:raises:' + type(r['raised']).__name__, 'msg': repr(r['raised'])})
                        continue
                    if tr:
                        atoms.append({'sig': 'list:executes-doctests', 'msg': tr})
                    listed = re.findall(r'^\s+python -m xdoctest \S+ (\S+)$', r['out'], re.M)
                    if sorted(listed) != sorted(n + ':0' for n in names):
                        atoms.append({'sig': 'list:names', 'msg': 'listed %r, collected doctests are %r' % (listed, names)})
                # ---- a single name ----
                for n, k in zip(names, kinds):
                    for use_main in (False, True, 'dash-m'):
                        r = run_native(path, n + ':0', 1, use_main=bool(use_main), dash_m=use_main == 'dash-m')
                        n_runs += 1
                        harness.forget_modules(modname)
                        tr = trace()
                        if r['raised'] is not None:
                            atoms.append({'sig': 'named:raises:' + type(r['raised']).__name__, 'msg': repr(r['raised'])})
                            continue
                        exp_tr = (n + ';') if outcomes.traces(k, named=True) else ''
                        if tr != exp_tr:
                            atoms.append({'sig': 'named:executed-set' + (':disabled' if k in outcomes.DISABLED else ''),
                                          'msg': 'running %s:0 (%s) executed %r, expected %r' % (n, k, tr, exp_tr)})
                        o = outcomes.outcome(k, named=True)
                        if use_main:
                            if (r['rc'] != 0) != (o == 'failed'):
                                atoms.append({'sig': 'named:exit-status', 'msg': '%s (%s): exit status %r' % (n, k, r['rc'])})
                        else:
                            s = r['summary'] or {}
                            exp = (int(o == 'passed'), int(o == 'failed'), int(o == 'skipped'))
                            tallies = (s.get('n_passed'), s.get('n_failed'), s.get('n_skipped'))
                            if s.get('n_total') != 1 or tallies != exp:
                                atoms.append({'sig': 'named:tallies', 'msg': '%s (%s): n_total=%r tallies=%r expected %r' % (n, k, s.get('n_total'), tallies, exp)})
            finally:
                os.chdir(cwd)
                harness.forget_modules(modname)
        seen = set()
        uniq = []
        for a in atoms:
            if a['sig'] not in seen:
                seen.add(a['sig'])
                uniq.append(a)
        return {'atoms': uniq, 'n': n_runs, 'outcome': '%d/%d/%d/%d' % S, 'case': {'kinds': kinds, 'module': src},
                'nontrivial': len(set(outcomes.outcome(k) for k in kinds)) >= 2}


class MultiBlockSpec(Spec):
    """one function whose docstring holds three google blocks of two different kinds (Example / Doctest / Example):
    three doctests with consecutive numbers; 'list' names each once and naming one runs exactly that one"""
    prop = 'C10'
    name = 'multi-block'
    title = 'several example blocks of different kinds in one docstring'
    max_len = 3

    def __init__(self):
        self.rule = ('all 27 assignments of {pass, failout, allskip} to the three blocks x headers (Example, Doctest, Example) and '
                     '(Doctest, Example, Doctest); commands all / list / each name; non-trivial = all')

    def histories(self, stats):
        import itertools
        for hdr in (('Example', 'Doctest', 'Example'), ('Doctest', 'Example', 'Doctest')):
            for ks in itertools.product(['pass', 'failout', 'allskip'], repeat=3):
                yield (hdr, ks)

    def hist_cost(self, hist):
        return 0

    def run_case(self, hist):
        hdr, ks = hist
        atoms = []
        with harness.scratch_dir('c10m') as d:
            tracefile = os.path.join(d, 'trace.txt')
            body = []
            for j, (h, k) in enumerate(zip(hdr, ks)):
                tr = ">>> _ = open(%r, 'a').write('b%d;')" % (tracefile, j)
                lines = [tr if l == 'TR' else l for l in outcomes.BODY[k]]
                body += ['    %s:' % h] + ['        ' + l for l in lines] + ['']
            src = 'def zz():\n    """\n%s\n    """\n' % '\n'.join(body)
            modname = harness.unique_modname('m10m', src)
            path = os.path.join(d, modname + '.py')
            with open(path, 'w') as f:
                f.write(src)
            cwd = os.getcwd()
            os.chdir(d)

            def trace():
                t = open(tracefile).read() if os.path.exists(tracefile) else ''
                if os.path.exists(tracefile):
                    os.unlink(tracefile)
                return t
            try:
                outs = [outcomes.outcome(k) for k in ks]
                r = run_native(path, 'list', 1)
                harness.forget_modules(modname)
                listed = re.findall(r'^\s+python -m xdoctest \S+ (\S+)$', r['out'], re.M)
                if sorted(listed) != ['zz:0', 'zz:1', 'zz:2']:
                    atoms.append({'sig': 'multi-block:list-names', 'msg': 'listed %r, expected zz:0 zz:1 zz:2' % (listed,)})
                trace()
                r = run_native(path, 'all', 1)
                harness.forget_modules(modname)
                tr = trace()
                exp_tr = ''.join('b%d;' % j for j, k in enumerate(ks) if outcomes.traces(k))
                s_ = r['summary'] or {}
                tal = (s_.get('n_total'), s_.get('n_passed'), s_.get('n_failed'), s_.get('n_skipped'))
                exp_tal = (3, outs.count('passed'), outs.count('failed'), outs.count('skipped'))
                if r['raised'] is not None or tr != exp_tr or tal != exp_tal:
                    atoms.append({'sig': 'multi-block:all', 'msg': 'executed %r (expected %r), tallies %r (expected %r), raised %r' % (tr, exp_tr, tal, exp_tal, r['raised'])})
                for j, k in enumerate(ks):
                    r = run_native(path, 'zz:%d' % j, 1)
                    harness.forget_modules(modname)
                    tr = trace()
                    exp_tr = ('b%d;' % j) if outcomes.traces(k, named=True) else ''
                    s_ = r['summary'] or {}
                    o = outcomes.outcome(k, named=True)
                    tal = (s_.get('n_total'), s_.get('n_passed'), s_.get('n_failed'), s_.get('n_skipped'))
                    exp_tal = (1, int(o == 'passed'), int(o == 'failed'), int(o == 'skipped'))
                    if r['raised'] is not None or tr != exp_tr or tal != exp_tal:
                        atoms.append({'sig': 'multi-block:named', 'msg': 'zz:%d (%s): executed %r (expected %r), tallies %r (expected %r)' % (j, k, tr, exp_tr, tal, exp_tal)})
            finally:
                os.chdir(cwd)
                harness.forget_modules(modname)
        seen = set()
        uniq = [a for a in atoms if not (a['sig'] in seen or seen.add(a['sig']))]
        return {'atoms': uniq, 'n': 5, 'outcome': ','.join(ks), 'case': {'headers': list(hdr), 'kinds': list(ks), 'module': src}, 'nontrivial': 1}


class CliSpec(TallySpec):
    """the same tallies through a real `python -m xdoctest` subprocess (binds the in-process runs to the CLI)"""
    title = 'python -m xdoctest <module> all in a subprocess'

    def run_case(self, hist):
        import subprocess
        from xmc import core
        kinds = list(hist)
        S = self.init()
        for k in kinds:
            S = self.step(S, k)
        n_pass, n_fail, n_skip, n_dis = S
        atoms = []
        with harness.scratch_dir('c10s') as d:
            tracefile = os.path.join(d, 'trace.txt')
            src = outcomes.module_source(kinds, tracefile)
            path = os.path.join(d, 'mcli.py')
            with open(path, 'w') as f:
                f.write(src)
            env = {k: v for k, v in os.environ.items() if not k.startswith('XDOCTEST_')}
            env['PYTHONPATH'] = os.path.join(core.REPO, 'src')
            r = subprocess.run([sys.executable, '-m', 'xdoctest', path, 'all', '--nocolor', '--verbose=1'], cwd=d,
                               env=env, capture_output=True, text=True, timeout=120)
            tr = open(tracefile).read() if os.path.exists(tracefile) else ''
            names = [outcomes.fname(j) for j in range(len(kinds))]
            exp_trace = ''.join(n + ';' for n, k in zip(names, kinds) if outcomes.traces(k))
            if tr != exp_trace:
                atoms.append({'sig': 'cli:executed-set', 'msg': '%r vs %r' % (tr, exp_trace)})
            if (r.returncode != 0) != (n_fail > 0):
                atoms.append({'sig': 'cli:exit-status', 'msg': 'exit status %r with %d failing; stderr %s' % (r.returncode, n_fail, r.stderr[-300:])})
            if r.returncode not in (0, 1):
                atoms.append({'sig': 'cli:crash', 'msg': r.stderr[-500:]})
            m = SUMMARY_RE.findall(r.stdout)
            if len(kinds) - n_dis > 0:
                got = {}
                if m:
                    for part in m[-1].split(', '):
                        num, word = part.split(' ')
                        got[word] = int(num)
                    got.pop('warnings', None)
                exp = {k: v for k, v in (('failed', n_fail), ('passed', n_pass), ('skipped', n_skip)) if v}
                if got != exp:
                    atoms.append({'sig': 'cli:summary-line', 'msg': 'summary line %r, expected %r' % (got, exp)})
        return {'atoms': atoms, 'outcome': '%d/%d/%d/%d' % S, 'case': {'kinds': kinds},
                'nontrivial': len(set(outcomes.outcome(k) for k in kinds)) >= 2}


class GlobalExecSpec(TallySpec):
    """--global-exec code runs in front of every doctest that executes anything.  Benign code changes no outcome; code that
    raises makes no doctest runnable: the run may abort (no tally at all), but a tally that *is* produced must still agree with
    itself and with the exit status (whatever is listed as failed is counted as failed and makes the exit status non-zero, the
    counts add up to the number run, nothing that could not start is counted as passed)"""
    title = 'modules x --global-exec code (benign / raising) through the native runner'
    GX = ['gx10 = 5', 'import nonexistent_module_xv10', 'raise ValueError("gx")']

    def __init__(self, name, max_len):
        TallySpec.__init__(self, name, max_len)
        self.rule = ('history = sequence of <= %d doctests over the outcome kinds (as the tally specs), x global_exec code in %r x '
                     'entry (doctest_module(config=...), CLI main --global-exec) x verbosity 0/1; non-trivial = raising code with '
                     'at least one doctest that executes something' % (max_len, self.GX))

    def run_case(self, hist):
        import xdoctest
        from xdoctest.__main__ import main as xmain
        kinds = list(hist)
        S = self.init()
        for k in kinds:
            S = self.step(S, k)
        n_pass, n_fail, n_skip, n_dis = S
        atoms = []
        n_runs = 0
        names = [outcomes.fname(j) for j in range(len(kinds))]
        with harness.scratch_dir('c10g') as d:
            tracefile = os.path.join(d, 'trace.txt')
            src = outcomes.module_source(kinds, tracefile)
            modname = harness.unique_modname('m10g', src)
            path = os.path.join(d, modname + '.py')
            with open(path, 'w') as f:
                f.write(src)
            cwd = os.getcwd()
            os.chdir(d)
            try:
                for gx in self.GX:
                    benign = gx == self.GX[0]
                    for verbose in (0, 1):
                        for use_main in (False, True):
                            buf = io.StringIO()
                            rc = summary = raised = None
                            with contextlib.redirect_stdout(buf), contextlib.redirect_stderr(buf), harness.fresh_process_warning_filters():
                                try:
                                    if use_main:
                                        rc = xmain(['xdoctest', path, 'all', '--verbose=%d' % verbose, '--nocolor', '--global-exec=' + gx])
                                    else:
                                        summary = xdoctest.doctest_module(path, command='all', argv=[], verbose=verbose,
                                                                          config={'global_exec': gx})
                                except SystemExit as ex:
                                    rc = ex.code
                                except BaseException as ex:
                                    if type(ex).__name__ == 'CaseTimeout':
                                        raise
                                    raised = ex
                            n_runs += 1
                            harness.forget_modules(modname)
                            if os.path.exists(tracefile):
                                os.unlink(tracefile)
                            out = buf.getvalue()
                            tag = 'gx:benign' if benign else 'gx:raising'
                            where = '%s, global_exec=%r, verbose=%d' % ('CLI' if use_main else 'doctest_module', gx, verbose)
                            if raised is not None:
                                if benign:
                                    atoms.append({'sig': tag + ':raises:' + type(raised).__name__, 'msg': '%s: %r' % (where, raised)})
                                continue         # raising code: the run aborted, no tally to judge
                            if use_main:
                                listed = re.findall(r'^python -m xdoctest \S+ (\S+)$', out.split('=== Failed tests ===')[-1], re.M) if '=== Failed tests ===' in out else []
                                m = SUMMARY_RE.findall(out)
                                got = {}
                                if m:
                                    for part in m[-1].split(', '):
                                        if ' ' in part:
                                            num, word = part.split(' ')
                                            got[word] = int(num)
                                    got.pop('warnings', None)
                                if benign:
                                    if (rc != 0) != (n_fail > 0):
                                        atoms.append({'sig': tag + ':exit-status', 'msg': '%s: exit status %r with %d failing' % (where, rc, n_fail)})
                                    exp = {k: v for k, v in (('failed', n_fail), ('passed', n_pass), ('skipped', n_skip)) if v}
                                    if verbose >= 1 and len(kinds) - n_dis > 0 and got != exp:
                                        atoms.append({'sig': tag + ':summary-line', 'msg': '%s: %r, expected %r' % (where, got, exp)})
                                else:
                                    if listed and not rc:
                                        atoms.append({'sig': tag + ':exit-status-zero-with-failed-doctests-listed', 'msg': '%s: lists %r as failed, exit status %r' % (where, listed, rc)})
                                    if m and got.get('failed', 0) != len(listed):
                                        atoms.append({'sig': tag + ':summary-line-vs-failed-list', 'msg': '%s: summary %r, listed as failed %r' % (where, got, listed)})
                                    if m and got.get('passed', 0) > 0:
                                        atoms.append({'sig': tag + ':counted-as-passed', 'msg': '%s: summary %r although no doctest could start' % (where, got)})
                            else:
                                s_ = summary or {}
                                tallies = (s_.get('n_passed'), s_.get('n_failed'), s_.get('n_skipped'))
                                failed = [e.callname for e in s_.get('failed', [])]
                                if benign:
                                    if tallies != (n_pass, n_fail, n_skip):
                                        atoms.append({'sig': tag + ':tallies', 'msg': '%s: %r, expected %r' % (where, tallies, (n_pass, n_fail, n_skip))})
                                else:
                                    if None in tallies or sum(tallies) != s_.get('n_total'):
                                        atoms.append({'sig': tag + ':tallies-do-not-add-up', 'msg': '%s: (passed, failed, skipped)=%r, n_total=%r' % (where, tallies, s_.get('n_total'))})
                                    if len(failed) != s_.get('n_failed'):
                                        atoms.append({'sig': tag + ':failed-list-vs-n_failed', 'msg': '%s: failed=%r, n_failed=%r' % (where, failed, s_.get('n_failed'))})
                                    if s_.get('n_passed'):
                                        atoms.append({'sig': tag + ':counted-as-passed', 'msg': '%s: n_passed=%r although no doctest could start' % (where, s_.get('n_passed'))})
            finally:
                os.chdir(cwd)
                harness.forget_modules(modname)
        seen = set()
        uniq = []
        for a in atoms:
            if a['sig'] not in seen:
                seen.add(a['sig'])
                uniq.append(a)
        return {'atoms': uniq, 'n': n_runs, 'outcome': '%d/%d/%d/%d' % S, 'case': {'kinds': kinds, 'module': src},
                'nontrivial': int(any(outcomes.traces(k) for k in kinds))}


PROJECT_FILES = {
    'none': {},
    'pytest.ini:empty': {'pytest.ini': ''},
    'pytest.ini:other-section': {'pytest.ini': '[tool:other]\nkey = 1\n'},
    'pytest.ini:no-option': {'pytest.ini': '[pytest]\naddopts = -q\n'},
    'pytest.ini:+SKIP': {'pytest.ini': '[pytest]\nxdoctest_options = +SKIP\n'},
    'pyproject:empty': {'pyproject.toml': ''},
    'pyproject:other-tool': {'pyproject.toml': '[tool.other]\nkey = 1\n'},
    'pyproject:+SKIP': {'pyproject.toml': '[tool.xdoctest]\noptions = "+SKIP"\n'},
    'both:pyproject+SKIP,ini-empty': {'pyproject.toml': '[tool.xdoctest]\noptions = "+SKIP"\n', 'pytest.ini': ''},
}


class ProjectFileSpec(TallySpec):
    """the command line reads default options from ./pyproject.toml and ./pytest.ini; whatever those files hold (nothing, other
    tools' sections, the option), the run ends with a tally that matches the by-construction outcomes under the option they
    define, and the exit status follows the tally"""
    title = 'modules x project files in the working directory through the command line'

    def __init__(self, name, max_len):
        TallySpec.__init__(self, name, max_len, max_cost=2)
        self.rule = ('history = sequence of <= %d doctests (cost <= 2) x project files %r x verbosity 1, CLI main with that '
                     'directory as cwd; non-trivial = a project file is present' % (max_len, list(PROJECT_FILES)))

    def run_case(self, hist):
        from xdoctest.__main__ import main as xmain
        kinds = list(hist)
        atoms = []
        n_runs = 0
        names = [outcomes.fname(j) for j in range(len(kinds))]
        with harness.scratch_dir('c10p') as d:
            tracefile = os.path.join(d, 'trace.txt')
            src = outcomes.module_source(kinds, tracefile)
            modname = harness.unique_modname('m10p', src)
            path = os.path.join(d, modname + '.py')
            with open(path, 'w') as f:
                f.write(src)
            cwd = os.getcwd()
            os.chdir(d)
            try:
                for pname, files in PROJECT_FILES.items():
                    for fn in ('pytest.ini', 'pyproject.toml'):
                        if os.path.exists(fn):
                            os.unlink(fn)
                    for fn, content in files.items():
                        with open(fn, 'w') as f:
                            f.write(content)
                    opt = '+SKIP' if '+SKIP' in pname else None
                    outs = [outcomes.outcome(k, opt) for k in kinds]
                    n_pass, n_fail, n_skip = outs.count('passed'), outs.count('failed'), outs.count('skipped')
                    exp_trace = ''.join(n + ';' for n, k in zip(names, kinds) if outcomes.traces(k, opt))
                    buf = io.StringIO()
                    rc = raised = None
                    with contextlib.redirect_stdout(buf), contextlib.redirect_stderr(buf), harness.fresh_process_warning_filters():
                        try:
                            rc = xmain(['xdoctest', path, 'all', '--verbose=1', '--nocolor'])
                        except SystemExit as ex:
                            rc = ex.code
                        except BaseException as ex:
                            if type(ex).__name__ == 'CaseTimeout':
                                raise
                            raised = ex
                    n_runs += 1
                    harness.forget_modules(modname)
                    tr = ''
                    if os.path.exists(tracefile):
                        tr = open(tracefile).read()
                        os.unlink(tracefile)
                    if raised is not None:
                        atoms.append({'sig': 'project-file:%s:raises:%s' % (pname, type(raised).__name__), 'msg': repr(raised)})
                        continue
                    if tr != exp_trace:
                        atoms.append({'sig': 'project-file:%s:executed-set' % pname, 'msg': 'executed %r, expected %r' % (tr, exp_trace)})
                    if (rc != 0) != (n_fail > 0):
                        atoms.append({'sig': 'project-file:%s:exit-status' % pname, 'msg': 'exit status %r with %d failing doctest(s)' % (rc, n_fail)})
                    m = SUMMARY_RE.findall(buf.getvalue())
                    if n_pass + n_fail + n_skip > 0:
                        got = {}
                        if m:
                            for part in m[-1].split(', '):
                                if ' ' in part:
                                    num, word = part.split(' ')
                                    got[word] = int(num)
                            got.pop('warnings', None)
                        exp = {k: v for k, v in (('failed', n_fail), ('passed', n_pass), ('skipped', n_skip)) if v}
                        if got != exp:
                            atoms.append({'sig': 'project-file:%s:summary-line' % pname, 'msg': 'summary %r, expected %r' % (got, exp)})
            finally:
                os.chdir(cwd)
                harness.forget_modules(modname)
        seen = set()
        uniq = []
        for a in atoms:
            if a['sig'] not in seen:
                seen.add(a['sig'])
                uniq.append(a)
        return {'atoms': uniq, 'n': n_runs, 'outcome': 'ok' if not uniq else 'bad', 'case': {'kinds': kinds, 'module': src}, 'nontrivial': 1}


class CmdNameSpec(TallySpec):
    """the tally specs for modules whose callables bear the names of the runner's commands (all, list, dump)"""
    title = 'modules whose callables are named all / list / dump through the native runner'

    def __init__(self, name, max_len, max_cost=99):
        TallySpec.__init__(self, name, max_len, max_cost=max_cost)
        self.rule = 'callables named %r: ' % (outcomes.COMMAND_NAMES,) + self.rule

    def run_case(self, hist):
        outcomes.NAMES = outcomes.COMMAND_NAMES
        try:
            return TallySpec.run_case(self, hist)
        finally:
            outcomes.NAMES = None


def specs(tier):
    if tier == 'thorough':
        return [TallySpec('modules<=3', 3), TallySpec('modules=4', 4, min_len=4, max_cost=4), MultiBlockSpec(), CliSpec('cli<=3', 3, max_cost=4), GlobalExecSpec('global-exec<=3', 3), CmdNameSpec('command-names<=3', 3, max_cost=4), ProjectFileSpec('project-files<=3', 3)]
    return [TallySpec('modules<=2', 2), TallySpec('modules=3', 3, min_len=3, max_cost=3), MultiBlockSpec(), CliSpec('cli<=2', 2), GlobalExecSpec('global-exec<=2', 2), CmdNameSpec('command-names<=2', 2, max_cost=3), ProjectFileSpec('project-files<=2', 2)]
