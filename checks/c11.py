"""
C11 - runs are isolated: a doctest behaves the same whatever ran before it.

History = sequence of run(d_i) events over the doctests of one generated module (binds a name / reads it /
rebinds a module global / leaves SKIP, REQUIRES or a report style switched on / ends with unmatched output /
depends on an environment variable owned by the model / replaces sys.stdout / changes warning filters /
fails half-way / awaits).  Re-running the same object is in the alphabet by construction.  Oracle
(differential): every run's observation equals that of a fresh object of the same doctest run first in a
clean process under the same environment; module globals and the default directive state keep their values.
"""
import io
import os
import re
import sys
import copy
import atexit
import shutil
import warnings
import contextlib

from xmc.core import Spec
from models import harness

LEVEL = 'model_checking'

MODSRC = r'''
G = 'orig'
L = []
def getG():
    return G
def d_bind():
    """
    >>> x = 1
    >>> print('bind', x)
    bind 1
    """
def d_read():
    """
    >>> try:
    ...     x
    ...     print('leak')
    ... except NameError:
    ...     print('clean')
    clean
    >>> x = 5
    """
def d_rebind():
    """
    >>> G = 'changed'
    >>> print(getG())
    orig
    """
def d_mutate():
    """
    >>> L.append(1)
    >>> print(len(L) >= 1)
    True
    """
def d_skipon():
    """
    >>> print('a')
    a
    >>> # xdoctest: +SKIP
    >>> print('never')
    """
def d_reqon():
    """
    >>> print('b')
    b
    >>> # xdoctest: +REQUIRES(env:XV_NOPE==1)
    >>> print('never')
    """
def d_flagson():
    """
    >>> # xdoctest: +IGNORE_WANT, -ELLIPSIS, +IGNORE_WHITESPACE
    >>> print('c')
    whatever
    """
def d_ellipsis():
    """
    >>> print('abcdef')
    ab...f
    >>> print('a b')
    ab
    """
def d_same_off():
    """
    >>> # xdoctest: -ELLIPSIS
    >>> print("'hello world'")
    hello ...
    """
def d_same_on():
    """
    >>> print("'hello world'")
    hello ...
    """
def d_gx_a():
    """
    >>> gx11.append('a')
    >>> print(gx11)
    ['a']
    """
def d_gx_b():
    """
    >>> gx11.append('b')
    >>> print(gx11)
    ['b']
    """
def d_report():
    """
    >>> # xdoctest: -REPORT_NDIFF
    >>> print('r')
    r
    """
def d_unmatched():
    """
    >>> print('u1')
    u1
    >>> print('u2')
    """
def d_envfirst():
    """
    >>> # xdoctest: +REQUIRES(env:XV_F==1)
    >>> print('a')
    >>> # xdoctest: -REQUIRES(env:XV_F==1)

    >>> print('b')
    a
    b
    >>> print('a')
    """
def d_stdout():
    """
    >>> import sys, io
    >>> sys.stdout = io.StringIO()
    >>> print('lost')
    """
def d_warn():
    """
    >>> import warnings
    >>> warnings.simplefilter('error')
    >>> print('w')
    w
    """
def d_warnread():
    """
    >>> import warnings
    >>> warnings.warn('xv11 warning')
    >>> print('survived')
    survived
    """
def d_failing():
    """
    >>> print('f1')
    >>> print('f2')
    nope
    nope2
    """
def d_allskip():
    """
    >>> # xdoctest: +SKIP
    >>> print('never')
    never
    """
def d_reqmissing():
    """
    >>> # xdoctest: +REQUIRES(module:json.c11_not_there)
    >>> print('never')
    """
def d_reqpkg():
    """
    >>> # xdoctest: +REQUIRES(module:json)
    >>> print('has json')
    has json
    """
def d_reqsub():
    """
    >>> # xdoctest: +REQUIRES(module:json.decoder)
    >>> print('has json.decoder')
    has json.decoder
    """
def d_leavetask():
    """
    >>> import asyncio
    >>> async def late():
    ...     await asyncio.sleep(0)
    ...     await asyncio.sleep(0)
    ...     print('late output of d_leavetask')
    >>> async def start():
    ...     asyncio.get_running_loop().create_task(late())
    ...     print('started')
    >>> await start()
    started
    """
def d_await2():
    """
    >>> import asyncio
    >>> async def twice():
    ...     await asyncio.sleep(0)
    ...     await asyncio.sleep(0)
    ...     await asyncio.sleep(0)
    ...     print('twice done')
    >>> await twice()
    twice done
    """
def d_await():
    """
    >>> import asyncio
    >>> await asyncio.sleep(0)
    >>> print('awaited')
    awaited
    """
'''
NAMES = re.findall(r'^def (d_\w+)', MODSRC, re.M)
EVENTS = []
for _n in NAMES:
    if _n == 'd_envfirst':
        EVENTS += [(_n, '1'), (_n, None)]
    else:
        EVENTS.append((_n, None))
DEFAULT_EVENTS = {('d_bind', None)}

_STATE = {}


def module_path():
    """one scratch copy of the module per parent process (workers inherit it through fork)"""
    if 'path' not in _STATE:
        d = os.path.join(harness.scratch_root(), 'c11-%d' % os.getpid())
        os.makedirs(d, exist_ok=True)
        modname = harness.unique_modname('modz11', MODSRC)
        p = os.path.join(d, modname + '.py')
        with open(p, 'w') as f:
            f.write(MODSRC)
        _STATE['path'] = p
        _STATE['modname'] = modname
        pid = os.getpid()

        def _cleanup():
            if os.getpid() == pid:
                shutil.rmtree(d, ignore_errors=True)
                try:
                    os.rmdir(os.path.dirname(d))
                except OSError:
                    pass
        atexit.register(_cleanup)
    return _STATE['path']


CONFIGS = {
    'none': None,
    # a non-empty default directive state, one dict object shared by every doctest of the module - exactly what
    # runner.doctest_module and the pytest plugin hand to the examples when --options is given
    'opt-ellipsis': {'ELLIPSIS': True},
    'opt-noskip': {'SKIP': False, 'NORMALIZE_WHITESPACE': True},
}


# the --global-exec preamble of every run: executed in front of every doctest that runs anything; the list it creates is
# each doctest's own
GLOBAL_EXEC = 'gx11 = []'


def load(cfg='none'):
    from xdoctest import core
    with contextlib.redirect_stdout(io.StringIO()), warnings.catch_warnings():
        warnings.simplefilter('ignore')
        exs = list(core.parse_doctestables(module_path(), style='freeform', analysis='static'))
    shared = copy.deepcopy(CONFIGS[cfg])
    for e in exs:
        e.mode = 'native'
        e.config['colored'] = False
        e.config['global_exec'] = GLOBAL_EXEC
        if shared is not None:
            e.config['default_runtime_state'] = shared
    return {e.callname: e for e in exs}


def run(e, env):
    if env:
        os.environ['XV_F'] = env
    else:
        os.environ.pop('XV_F', None)
    try:
        with contextlib.redirect_stdout(io.StringIO()), contextlib.redirect_stderr(io.StringIO()):
            try:
                s = e.run(on_error='return', verbose=0)
            except BaseException as ex:
                if type(ex).__name__ == 'CaseTimeout':
                    raise
                return ('RAISE:' + type(ex).__name__,)
        v = harness.verdict_of(s)
        et = type(s['exc_info'][1]).__name__ if s['exc_info'] else None
        rendering = None
        if et == 'GotWantException':
            try:
                rendering = s['exc_info'][1].output_difference(e._runstate, colored=False)
            except Exception as ex:
                rendering = 'render-raises:' + type(ex).__name__
        return (v, et, tuple(sorted(e.logged_stdout.items())), rendering)
    finally:
        os.environ.pop('XV_F', None)


def baselines():
    """fresh object, run first, per environment - computed once in the (clean) parent process"""
    if 'base' not in _STATE:
        from xdoctest import directive
        _STATE['defaults'] = copy.deepcopy(directive.DEFAULT_RUNTIME_STATE)
        base = {}
        from xmc import core
        for cfg in CONFIGS:
            for name, env in EVENTS:
                # "run first in a clean process": the module-level state of the library is put back to what it
                # was at import time before every baseline run (they all happen in the parent process)
                core.reset_library_state()
                base[(cfg, name, env)] = run(load(cfg)[name], env)
        core.reset_library_state()
        for name, env in EVENTS:
            base[(name, env)] = base[('none', name, env)]
        _STATE['base'] = base
    return _STATE['base']


class HistorySpec(Spec):
    prop = 'C11'
    title = 'histories of DocTest.run over the doctests of one module'
    batch = 16

    def __init__(self, name, max_len, min_len=1):
        self.name = name
        self.max_len = max_len + 1
        self.min_len = min_len
        self.max_cost = 99
        self.rule = ('default options %r (one shared dict per history) x all sequences of <= %d run events over %d events (%d doctests; the environment-sensitive one with '
                     'XV_F set and unset); one set of DocTest objects per history, so repeating an event re-runs the '
                     'same object; histories under non-empty default options are one run shorter; non-trivial = history of >= 2 runs' % (list(CONFIGS), max_len, len(EVENTS), len(NAMES)))
        baselines()

    # model state for counting: which kinds of residue previous runs could have left
    def init(self):
        return None

    def enabled(self, S, hist):
        if S is None:
            return [('config', c) for c in CONFIGS]
        if hist[0][1] != 'none' and len(hist) >= self.max_len - 1:
            return ()            # with non-empty default options: histories one run shorter
        return EVENTS

    def cost(self, ev):
        return 0

    def step(self, S, ev):
        if S is None:
            return frozenset([ev])
        return frozenset(S | {ev[0]})

    def final(self, S, hist):
        return len(hist) - 1 >= self.min_len

    def run_case(self, hist):
        from xdoctest import directive
        base = baselines()
        cfg = hist[0][1]
        hist = hist[1:]
        objs = load(cfg)
        shared_before = copy.deepcopy(CONFIGS[cfg])
        atoms = []
        obs = []
        for i, (name, env) in enumerate(hist):
            r = run(objs[name], env)
            obs.append(r[0])
            exp = base[(cfg, name, env)]
            if r != exp:
                prev = [h[0] for h in hist[:i]]
                what = 'same-object-rerun' if name in prev else 'after-other-doctest'
                field = 'verdict' if r[:2] != exp[:2] else ('stdout' if r[2:3] != exp[2:3] else 'report')
                atoms.append({'sig': 'isolation:%s:%s:%s' % (what, field, name),
                              'msg': 'default options %s: run %d of %r after %r: %r, a fresh object run first gives %r' % (
                                  cfg, i, (name, env), prev, r, exp)})
                break
        shared_after = objs[NAMES[0]].config['default_runtime_state'] if CONFIGS[cfg] is not None else None
        if shared_after != shared_before:
            atoms.append({'sig': 'isolation:shared-default-options-mutated',
                          'msg': 'default_runtime_state handed to the doctests was %r, is now %r' % (shared_before, shared_after)})
        mod = sys.modules.get(_STATE['modname'])
        if mod is not None and mod.G != 'orig':
            atoms.append({'sig': 'isolation:module-global-rebound', 'msg': 'module G=%r' % (mod.G,)})
            mod.G = 'orig'
        if directive.DEFAULT_RUNTIME_STATE != _STATE['defaults']:
            atoms.append({'sig': 'isolation:default-directive-state-mutated',
                          'msg': '%r' % ({k: v for k, v in directive.DEFAULT_RUNTIME_STATE.items() if v != _STATE['defaults'][k]},)})
            directive.DEFAULT_RUNTIME_STATE.clear()
            directive.DEFAULT_RUNTIME_STATE.update(copy.deepcopy(_STATE['defaults']))
        return {'atoms': atoms, 'n': len(hist), 'outcome': ','.join(obs),
                'case': {'default_options': cfg, 'history': [list(h) for h in hist]}, 'nontrivial': len(hist) >= 2}


class RunnerOrderSpec(Spec):
    """the same doctests through the native runner: modules holding the doctests in every order"""
    prop = 'C11'
    title = 'doctest_module(all) on modules holding the doctests in every order'
    batch = 4

    def __init__(self, name, max_len, min_len=2, configs=None):
        self.name = name
        self.max_len = max_len + 1
        self.min_len = min_len
        self.max_cost = 99
        self.configs = list(configs) if configs else list(CONFIGS)
        self.rule = ('default options ' + repr(self.configs) + ' x all sequences of %d..%d distinct doctests written to a module in that order and run by the native '
                     'runner; the per-doctest outcome must equal the outcome of the doctest run alone' % (min_len, max_len))
        baselines()

    def init(self):
        return None

    def enabled(self, S, hist):
        if S is None:
            return [('config', c) for c in self.configs]
        return [n for n in NAMES if n not in S]

    def step(self, S, ev):
        if S is None:
            return frozenset()
        return frozenset(S | {ev})

    def final(self, S, hist):
        return len(hist) - 1 >= self.min_len

    def run_case(self, hist):
        import xdoctest
        base = baselines()
        cfg = hist[0][1]
        hist = hist[1:]
        # cut the functions out of MODSRC in the requested order
        chunks = re.split(r'^(?=def )', MODSRC, flags=re.M)
        head = chunks[0] + [c for c in chunks if c.startswith('def getG')][0]
        body = {re.match(r'def (\w+)', c).group(1): c for c in chunks[1:]}
        src = head + ''.join(body[n] for n in hist)
        atoms = []
        with harness.scratch_dir('c11r') as d:
            modname = harness.unique_modname('m11r', src)
            p = os.path.join(d, modname + '.py')
            with open(p, 'w') as f:
                f.write(src)
            buf = io.StringIO()
            os.environ.pop('XV_F', None)
            try:
                with contextlib.redirect_stdout(buf), contextlib.redirect_stderr(buf), warnings.catch_warnings():
                    warnings.simplefilter('ignore')
                    config = {'colored': False, 'global_exec': GLOBAL_EXEC}
                    if CONFIGS[cfg] is not None:
                        config['default_runtime_state'] = copy.deepcopy(CONFIGS[cfg])
                    xdoctest.doctest_module(p, command='all', argv=[], verbose=1, style='freeform', config=config)
            except BaseException as ex:
                if type(ex).__name__ == 'CaseTimeout':
                    raise
                atoms.append({'sig': 'isolation:runner-raises:' + type(ex).__name__, 'msg': repr(ex)})
            finally:
                harness.forget_modules(modname)
            got = {}
            for m in re.finditer(r'^\* (SUCCESS|FAILURE|SKIPPED): .*::(\w+):0$', buf.getvalue(), re.M):
                got[m.group(2)] = {'SUCCESS': 'passed', 'FAILURE': 'failed', 'SKIPPED': 'skipped'}[m.group(1)]
            exp = {n: base[(cfg, n, None)][0] for n in hist}
            if not atoms and got != exp:
                diff = {n: (got.get(n), exp[n]) for n in hist if got.get(n) != exp[n]}
                atoms.append({'sig': 'isolation:runner-order:' + ','.join(sorted(diff)),
                              'msg': 'default options %s, order %r: (got, alone) %r' % (cfg, list(hist), diff)})
        return {'atoms': atoms, 'n': len(hist), 'outcome': ','.join(got.get(n, '?') for n in hist),
                'case': {'default_options': cfg, 'order': list(hist)}, 'nontrivial': 1}


class PytestOrderSpec(RunnerOrderSpec):
    """the same orders through one pytest session (plugin front end)"""
    title = 'pytest --xdoctest on modules holding the doctests in every order'
    batch = 2

    def enabled(self, S, hist):
        if S is None:
            return [('config', c) for c in ('none', 'opt-ellipsis')]
        return RunnerOrderSpec.enabled(self, S, hist)

    def run_case(self, hist):
        import pytest
        base = baselines()
        cfg = hist[0][1]
        hist = hist[1:]
        chunks = re.split(r'^(?=def )', MODSRC, flags=re.M)
        head = chunks[0] + [c for c in chunks if c.startswith('def getG')][0]
        body = {re.match(r'def (\w+)', c).group(1): c for c in chunks[1:]}
        src = head + ''.join(body[n] for n in hist)
        atoms = []
        got = {}

        class Rec(object):
            def pytest_runtest_logreport(self, report):
                if report.when == 'call' or (report.when == 'setup' and report.outcome != 'passed'):
                    got[report.nodeid.split('::', 1)[1].split(':')[0]] = report.outcome
        with harness.scratch_dir('c11p') as d:
            modname = harness.unique_modname('m11p', src)
            with open(os.path.join(d, modname + '.py'), 'w') as f:
                f.write(src)
            os.environ.pop('XV_F', None)
            args = ['--xdoctest', '--xdoctest-style=freeform', '--xdoctest-global-exec=' + GLOBAL_EXEC, *harness.PYTEST_ISOLATION_ARGS, '-q', '--rootdir', d, '-c', '/dev/null',
                    modname + '.py']
            opts = {'none': None, 'opt-ellipsis': '+ELLIPSIS', 'opt-noskip': '-SKIP,+NORMALIZE_WHITESPACE'}[cfg]
            if opts:
                args.insert(1, '--xdoctest-options=' + opts)
            buf = io.StringIO()
            cwd = os.getcwd()
            os.chdir(d)
            try:
                with contextlib.redirect_stdout(buf), contextlib.redirect_stderr(buf), harness.fresh_process_warning_filters():
                    pytest.main(args, plugins=[Rec()])
            except BaseException as ex:
                if type(ex).__name__ == 'CaseTimeout':
                    raise
                atoms.append({'sig': 'isolation:pytest-raises:' + type(ex).__name__, 'msg': repr(ex)})
            finally:
                os.chdir(cwd)
                harness.forget_modules(modname)
            exp = {n: base[(cfg, n, None)][0] for n in hist}
            if not atoms and got != exp:
                diff = {n: (got.get(n), exp[n]) for n in hist if got.get(n) != exp[n]}
                atoms.append({'sig': 'isolation:pytest-order:' + ','.join(sorted(diff)),
                              'msg': 'default options %s, order %r: (pytest session, alone) %r' % (cfg, list(hist), diff)})
        return {'atoms': atoms, 'n': len(hist), 'outcome': ','.join(got.get(n, '?') for n in hist),
                'case': {'default_options': cfg, 'order': list(hist)}, 'nontrivial': 1}


def specs(tier):
    if tier == 'thorough':
        return [HistorySpec('histories<=4', 4), RunnerOrderSpec('runner-orders<=3', 3), PytestOrderSpec('pytest-orders<=3', 3)]
    return [HistorySpec('histories<=3', 3), RunnerOrderSpec('runner-orders=2', 2), PytestOrderSpec('pytest-orders=2', 2, configs=['none'])]
