"""shim so that the explorer selftest can be addressed like a property (used by `./check selftest`)"""
from xmc.selftest import specs as _specs, LEVEL  # noqa


def specs(tier):
    out = _specs(tier)
    for s in out:
        s.prop = 'SELFTEST'
    return out
