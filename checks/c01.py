"""
C01 - doctest code runs exactly as written: each statement once, in order, one namespace, stdout exact.

Specs
  prog-*  : programs from the statement grammar (models.progs) x prompt styles x wants x separators x
            frames, run through DocTest.run and compared with the ordinary execution of the de-prompted
            program (trace, stdout, final bindings, verdict, attribution of stdout between two doctests).
  capture : all bounded histories of uses of one CaptureStdout object (the moving read position).
"""
import io
import sys
import types

from xmc.core import Spec
from models import harness, progs

LEVEL = 'model_checking'

ITEMS = progs.all_items()


def user_names(ns):
    out = {}
    for k, v in ns.items():
        if k.startswith('__') or k in harness.TRACER_NAMES:
            continue
        if isinstance(v, types.ModuleType):
            out[k] = 'module:' + v.__name__
        elif isinstance(v, type):
            out[k] = 'class:' + v.__name__
        elif callable(v):
            out[k] = 'callable:' + getattr(v, '__name__', type(v).__name__)
        else:
            out[k] = repr(v)
    return out


def stdout_variants(outs, echo_ok):
    """reference stdout, modulo the REPL echo of a value that is checked against a want (DESIGN 3.3)"""
    variants = ['']
    for i, (o, v) in enumerate(outs):
        nv = []
        for pre in variants:
            nv.append(pre + o)
            if i in echo_ok:
                nv.append(pre + o + repr(v) + '\n')
        variants = nv
    return variants


class ProgSpec(Spec):
    prop = 'C01'
    title = 'doctest programs vs ordinary execution of the de-prompted source'
    assumptions = ('prompt styles are not mixed inside one statement; a bare "..." never starts a new '
                   'statement (DESIGN.md 2.7)',)

    def __init__(self, name, n_items, max_cost, frames, min_items=1):
        self.name = name
        self.max_len = n_items + 1
        self.max_cost = max_cost
        self.frames = frames
        self.min_items = min_items
        self.rule = ('history = frame then <=%d items (template x prompt style x want x separator: %d item '
                     'variants over %d templates), total deviation cost <= %d, frames %r; non-trivial = '
                     'program with >=2 statements or a want' % (n_items, len(ITEMS), len(progs.TEMPLATES),
                                                                max_cost, frames))

    def init(self):
        return None

    def enabled(self, S, hist):
        if S is None:
            return [('frame',) + tuple(f) for f in self.frames]
        return [it for it in ITEMS if progs.item_enabled(S, it)]

    def cost(self, ev):
        if ev[0] == 'frame':
            return progs.frame_cost(ev[1:])
        return progs.item_cost(ev)

    def step(self, S, ev):
        if ev[0] == 'frame':
            return progs.model_init()
        return progs.model_step(S, ev)

    def final(self, S, hist):
        return len(hist) - 1 >= self.min_items and hist[-1][3] == 'none'

    def run_case(self, hist):
        frame = tuple(hist[0][1:])
        items = [tuple(it) for it in hist[1:]]
        b = progs.build(frame, items)
        text = b['text']
        case = {'doctest': text}
        atoms = []
        r = harness.run_doctest(text)
        # a second, unrelated doctest in the same process: output must not be attributed across
        r2 = harness.run_doctest('>>> print("zz-second")\nzz-second')
        nontrivial = len(b['stmts']) >= 2 or bool(b['wants'])
        if r.raised is not None:
            atoms.append({'sig': 'prog:run-raised:' + type(r.raised).__name__,
                          'msg': 'DocTest.run raised %r' % (r.raised,)})
            return {'atoms': atoms, 'outcome': 'raised', 'case': case, 'nontrivial': nontrivial}
        v = harness.verdict_of(r.summary)
        exp_v = 'passed' if b['anycode'] else 'skipped'
        ref_trace = b['ns']['TRACE']
        if r.trace != ref_trace:
            got = r.trace or []
            if len(got) > len(ref_trace) or any(got.count(t) > ref_trace.count(t) for t in got):
                kind = 'duplicated-or-extra'
            elif sorted(map(repr, got)) == sorted(map(repr, ref_trace)):
                kind = 'reordered'
            else:
                kind = 'missing'
            atoms.append({'sig': 'prog:trace:' + kind,
                          'msg': 'executed %r, plain program executes %r (verdict %s: %s %s)' % (
                              got, ref_trace, v, r.exc_type, str(r.exc)[:200])})
        if v != exp_v:
            atoms.append({'sig': 'prog:verdict:%s-expected-%s' % (v, exp_v),
                          'msg': '%s: %s' % (r.exc_type, str(r.exc)[:300])})
        if v == exp_v or r.trace == ref_trace:
            variants = stdout_variants(b['outs'], b['echo_ok'])
            if r.stdout not in variants:
                ref = variants[0]
                kind = 'lost' if len(r.stdout) < len(ref) else ('duplicated-or-extra' if len(r.stdout) > len(ref) else 'changed')
                atoms.append({'sig': 'prog:stdout:' + kind,
                              'msg': 'recorded %r, program wrote %r' % (r.stdout, ref)})
            if 'zz-second' in r.stdout or r2.stdout != 'zz-second\n' or harness.verdict_of(r2.summary) != 'passed':
                atoms.append({'sig': 'prog:stdout:attribution',
                              'msg': 'second doctest recorded %r, first %r' % (r2.stdout, r.stdout)})
            if ''.join(v for v in r.doctest.logged_stdout.values() if v) != r.stdout:
                atoms.append({'sig': 'prog:stdout:changed-by-later-doctest', 'msg': ''})
        if r.trace == ref_trace and v == exp_v:
            got_names = user_names(r.snap)
            ref_names = user_names(b['ns'])
            if got_names != ref_names:
                diff = sorted(set(got_names.items()) ^ set(ref_names.items()))
                atoms.append({'sig': 'prog:bindings', 'msg': 'differing bindings: %r' % (diff[:6],)})
        return {'atoms': atoms, 'outcome': '%s/%d/%d' % (v, len(r.trace or ()), len(r.stdout)), 'case': case,
                'nontrivial': nontrivial}


# ----------------------------------------------------------------------------------------------
class CaptureSpec(Spec):
    prop = 'C01'
    name = 'capture'
    title = 'CaptureStdout: one capture object re-used for many parts'
    rule = ('history of uses of one CaptureStdout (suppress on/off): with-block writing a unique token, '
            'writing nothing, writing two chunks, writing then raising, writing outside the block; every '
            'history up to max_len is replayed; non-trivial = history with >= 2 captured blocks')
    max_cost = 99
    EVENTS = ['w', 'n', 'ww', 'wr', 'out', 'nl']

    def __init__(self, max_len):
        self.max_len = max_len + 1

    def init(self):
        return None

    def enabled(self, S, hist):
        if S is None:
            return [('suppress', True), ('suppress', False)]
        return self.EVENTS

    def step(self, S, ev):
        if S is None:
            return ()
        return (S + (ev,))[-2:]     # counting abstraction only (last two events)

    def final(self, S, hist):
        return len(hist) >= 2

    def run_case(self, hist):
        from xdoctest import utils
        suppress = hist[0][1]
        outer = io.StringIO()
        saved = sys.stdout
        sys.stdout = outer
        atoms = []
        try:
            cap = utils.CaptureStdout(suppress=suppress)
            exp_parts = []
            exp_outer = ''
            for i, ev in enumerate(hist[1:]):
                tok = 't%d' % i
                written = ''
                if ev == 'out':
                    print(tok)
                    exp_outer += tok + '\n'
                    continue
                try:
                    with cap:
                        if ev in ('w', 'ww', 'wr'):
                            print(tok)
                            written += tok + '\n'
                        if ev == 'ww':
                            sys.stdout.write(tok + 'b')
                            written += tok + 'b'
                        if ev == 'nl':
                            sys.stdout.write('\n')
                            written += '\n'
                        if ev == 'wr':
                            raise KeyError(tok)
                except KeyError:
                    if ev != 'wr':
                        raise
                else:
                    if ev == 'wr':
                        atoms.append({'sig': 'capture:exception-swallowed', 'msg': repr(hist)})
                exp_parts.append(written)
                if not suppress:
                    exp_outer += written
                if cap.text != written:
                    atoms.append({'sig': 'capture:text', 'msg': 'step %d (%s): text %r, written %r' % (i, ev, cap.text, written)})
                    break
                if sys.stdout is not outer:
                    atoms.append({'sig': 'capture:stdout-not-restored', 'msg': 'after step %d (%s)' % (i, ev)})
                    sys.stdout = outer
                    break
            if not atoms:
                if list(cap.parts) != exp_parts:
                    atoms.append({'sig': 'capture:parts', 'msg': '%r vs %r' % (cap.parts, exp_parts)})
                if outer.getvalue() != exp_outer:
                    atoms.append({'sig': 'capture:passthrough', 'msg': '%r vs %r' % (outer.getvalue(), exp_outer)})
        finally:
            sys.stdout = saved
        n_blocks = sum(1 for e in hist[1:] if e != 'out')
        return {'atoms': atoms, 'outcome': '%d' % n_blocks, 'case': {'suppress': suppress, 'events': list(hist[1:])},
                'nontrivial': n_blocks >= 2}


def specs(tier):
    std = [(0, False)]
    if tier == 'thorough':
        return [CaptureSpec(6),
                ProgSpec('prog-len2', 2, 99, std),
                ProgSpec('prog-frames', 2, 4, [f for f in progs.FRAMES if f != (0, False)]),
                ProgSpec('prog-len3', 3, 4, std, min_items=3),
                ProgSpec('prog-len4', 4, 3, std, min_items=4)]
    return [CaptureSpec(5),
            ProgSpec('prog-len2', 2, 99, std),
            ProgSpec('prog-frames', 2, 4, [f for f in progs.FRAMES if f != (0, False)]),
            ProgSpec('prog-len3', 3, 3, std, min_items=3)]
