"""
C01 - doctest code runs exactly as written: each statement once, in order, one namespace, stdout exact.

Specs
  prog-*  : programs from the statement grammar (models.progs) x prompt styles x wants x separators x
            frames, run through DocTest.run and compared with the ordinary execution of the de-prompted
            program (trace, stdout, final bindings, verdict, attribution of stdout between two doctests).
  capture : all bounded histories of uses of one CaptureStdout object (the moving read position).
"""
import io
import sys
import types

from xmc.core import Spec
from models import harness, progs

LEVEL = 'model_checking'

ITEMS = progs.all_items()
ITEMS_SHIFT = progs.all_items(shift=True)      # C01 only: indentation changes directly after a want


def user_names(ns):
    out = {}
    for k, v in ns.items():
        if k.startswith('__') or k in harness.TRACER_NAMES:
            continue
        if isinstance(v, types.ModuleType):
            out[k] = 'module:' + v.__name__
        elif isinstance(v, type):
            out[k] = 'class:' + v.__name__
        elif callable(v):
            out[k] = 'callable:' + getattr(v, '__name__', type(v).__name__)
        else:
            out[k] = repr(v)
    return out


def stdout_variants(outs, echo_ok):
    """reference stdout, modulo the REPL echo of a value that is checked against a want (DESIGN 3.3)"""
    variants = ['']
    for i, (o, v) in enumerate(outs):
        nv = []
        for pre in variants:
            nv.append(pre + o)
            if i in echo_ok:
                nv.append(pre + o + repr(v) + '\n')
        variants = nv
    return variants


class ProgSpec(Spec):
    prop = 'C01'
    title = 'doctest programs vs ordinary execution of the de-prompted source'
    assumptions = ('prompt styles are not mixed inside one statement; a bare "..." never starts a new '
                   'statement (DESIGN.md 2.7)',)

    items = ITEMS

    def __init__(self, name, n_items, max_cost, frames, min_items=1, shift=False):
        if shift:
            self.items = ITEMS_SHIFT
        self.name = name
        self.max_len = n_items + 1
        self.max_cost = max_cost
        self.frames = frames
        self.min_items = min_items
        self.rule = ('history = frame then <=%d items (template x prompt style x want x separator: %d item '
                     'variants over %d templates), total deviation cost <= %d, frames %r; non-trivial = '
                     'program with >=2 statements or a want' % (n_items, len(self.items), len(progs.TEMPLATES),
                                                                max_cost, frames))

    def init(self):
        return None

    def enabled(self, S, hist):
        if S is None:
            return [('frame',) + tuple(f) for f in self.frames]
        return [it for it in self.items if progs.item_enabled(S, it)]

    def cost(self, ev):
        if ev[0] == 'frame':
            return progs.frame_cost(ev[1:])
        return progs.item_cost(ev)

    def step(self, S, ev):
        if ev[0] == 'frame':
            return progs.model_init()
        return progs.model_step(S, ev)

    def final(self, S, hist):
        return len(hist) - 1 >= self.min_items and hist[-1][3] == 'none'

    def run_case(self, hist):
        frame = tuple(hist[0][1:])
        items = [tuple(it) for it in hist[1:]]
        b = progs.build(frame, items)
        text = b['text']
        case = {'doctest': text}
        atoms = []
        r = harness.run_doctest(text)
        # a second, unrelated doctest in the same process: output must not be attributed across
        r2 = harness.run_doctest('>>> print("zz-second")\nzz-second')
        nontrivial = len(b['stmts']) >= 2 or bool(b['wants'])
        if r.raised is not None:
            atoms.append({'sig': 'prog:run-raised:' + type(r.raised).__name__,
                          'msg': 'DocTest.run raised %r' % (r.raised,)})
            return {'atoms': atoms, 'outcome': 'raised', 'case': case, 'nontrivial': nontrivial}
        v = harness.verdict_of(r.summary)
        exp_v = 'passed' if b['anycode'] else 'skipped'
        ref_trace = b['ns']['TRACE']
        if r.trace != ref_trace:
            got = r.trace or []
            if len(got) > len(ref_trace) or any(got.count(t) > ref_trace.count(t) for t in got):
                kind = 'duplicated-or-extra'
            elif sorted(map(repr, got)) == sorted(map(repr, ref_trace)):
                kind = 'reordered'
            else:
                kind = 'missing'
            atoms.append({'sig': 'prog:trace:' + kind,
                          'msg': 'executed %r, plain program executes %r (verdict %s: %s %s)' % (
                              got, ref_trace, v, r.exc_type, str(r.exc)[:200])})
        if v != exp_v:
            atoms.append({'sig': 'prog:verdict:%s-expected-%s' % (v, exp_v),
                          'msg': '%s: %s' % (r.exc_type, str(r.exc)[:300])})
        if v == exp_v or r.trace == ref_trace:
            variants = stdout_variants(b['outs'], b['echo_ok'])
            if r.stdout not in variants:
                ref = variants[0]
                kind = 'lost' if len(r.stdout) < len(ref) else ('duplicated-or-extra' if len(r.stdout) > len(ref) else 'changed')
                atoms.append({'sig': 'prog:stdout:' + kind,
                              'msg': 'recorded %r, program wrote %r' % (r.stdout, ref)})
            if 'zz-second' in r.stdout or r2.stdout != 'zz-second\n' or harness.verdict_of(r2.summary) != 'passed':
                atoms.append({'sig': 'prog:stdout:attribution',
                              'msg': 'second doctest recorded %r, first %r' % (r2.stdout, r.stdout)})
            if ''.join(v for v in r.doctest.logged_stdout.values() if v) != r.stdout:
                atoms.append({'sig': 'prog:stdout:changed-by-later-doctest', 'msg': ''})
        if r.trace == ref_trace and v == exp_v:
            got_names = user_names(r.snap)
            ref_names = user_names(b['ns'])
            if got_names != ref_names:
                diff = sorted(set(got_names.items()) ^ set(ref_names.items()))
                atoms.append({'sig': 'prog:bindings', 'msg': 'differing bindings: %r' % (diff[:6],)})
        return {'atoms': atoms, 'outcome': '%s/%d/%d' % (v, len(r.trace or ()), len(r.stdout)), 'case': case,
                'nontrivial': nontrivial}


class ShiftSpec(ProgSpec):
    """programs in which the indentation changes directly after a want (no blank line): the next prompt is
    4 columns deeper or shallower than the example above it"""
    title = 'programs whose indentation changes directly after a want'

    def __init__(self, name, n_items, max_cost, frames, min_items=2):
        ProgSpec.__init__(self, name, n_items, max_cost, frames, min_items, shift=True)
        self.rule = self.rule.replace('non-trivial =', 'only programs with at least one indentation change after a want; non-trivial =')

    def final(self, S, hist):
        return ProgSpec.final(self, S, hist) and any(it[3] in progs.SHIFT_SEPS for it in hist[1:])


class GoogleBlockSpec(ProgSpec):
    """the same programs written as the `Example:` block of a google-style docstring and collected with
    parse_docstr_examples(style=google / auto): exactly one doctest comes out and it runs like the plain program
    (a line of the block that merely looks like a section header - in a want, in a string - does not end the block)"""
    title = 'programs inside a google Example: block, extracted and run'

    def run_case(self, hist):
        import io
        import warnings
        import contextlib
        from xdoctest import core
        frame = tuple(hist[0][1:])
        items = [tuple(it) for it in hist[1:]]
        b = progs.build((0, False), items)
        doc = 'Summary line.\n\nArgs:\n    a (int): nothing\n\nExample:\n' + '\n'.join(('    ' + l) if l else '' for l in b['doc_lines']) + '\n'
        case = {'docstring': doc}
        nontrivial = len(b['stmts']) >= 2 or bool(b['wants'])
        atoms = []
        for style in ('google', 'auto'):
            try:
                with contextlib.redirect_stdout(io.StringIO()), warnings.catch_warnings():
                    warnings.simplefilter('ignore')
                    exs = list(core.parse_docstr_examples(doc, callname='f', style=style))
            except Exception as ex:
                atoms.append({'sig': 'google:extract-raises:' + type(ex).__name__, 'msg': '%s: %r' % (style, ex)})
                continue
            if len(exs) != 1:
                atoms.append({'sig': 'google:example-count', 'msg': 'style=%s: %d doctests for one Example block' % (style, len(exs))})
                continue
            e = exs[0]
            e.mode = 'native'
            r = harness.run_doctest(None, doctest=e)
            if r.raised is not None:
                atoms.append({'sig': 'google:run-raised:' + type(r.raised).__name__, 'msg': '%s: %r' % (style, r.raised)})
                continue
            v = harness.verdict_of(r.summary)
            exp_v = 'passed' if b['anycode'] else 'skipped'
            ref_trace = b['ns']['TRACE']
            if b['anycode'] and r.trace != ref_trace:
                atoms.append({'sig': 'google:trace', 'msg': 'style=%s: executed %r, plain program executes %r (%s: %s)' % (
                    style, r.trace, ref_trace, r.exc_type, str(r.exc)[:200])})
            elif v != exp_v:
                atoms.append({'sig': 'google:verdict:%s-expected-%s' % (v, exp_v), 'msg': '%s: %s %s' % (style, r.exc_type, str(r.exc)[:200])})
            elif b['anycode'] and r.stdout not in stdout_variants(b['outs'], b['echo_ok']):
                atoms.append({'sig': 'google:stdout', 'msg': 'style=%s: recorded %r' % (style, r.stdout)})
        seen = set()
        uniq = [a for a in atoms if not (a['sig'] in seen or seen.add(a['sig']))]
        return {'atoms': uniq, 'outcome': 'ok' if not uniq else 'bad', 'case': case, 'nontrivial': nontrivial}


# ----------------------------------------------------------------------------------------------
_MODCACHE = {}


def module_for_programs():
    """A module under test that already defines every name the program templates bind (with a sentinel
    value) and the tracer.  Returns (path, modname, sentinel source)."""
    import os
    if 'm' not in _MODCACHE:
        names = set()
        for name, _ in progs.TEMPLATES:
            for k in (1, 2, 3):
                ns, _outs = progs.ref_exec(progs.stmts_of(progs.instantiate(name, k)))
                names.update(n for n in user_names(ns))
        sent = ''.join('%s = "module-level %s"\n' % (n, n) for n in sorted(names))
        src = 'TRACE = []\n' + harness.PRE + sent
        modname = harness.unique_modname('c01mod', src)
        d = os.path.join(harness.scratch_root(), 'c01mod-%d' % os.getpid())
        os.makedirs(d, exist_ok=True)
        path = os.path.join(d, modname + '.py')
        with open(path, 'w') as f:
            f.write(src)
        _MODCACHE['m'] = (path, modname, sent)
    return _MODCACHE['m']


class ModuleBoundSpec(ProgSpec):
    """The same programs run as the doctest of a *module* whose globals already hold every name the program
    binds: the doctest namespace starts as a copy of the module's and must then evolve exactly like the plain
    program started from that copy (a rebinding in one part stays visible in the next; nothing is re-seeded
    from the module; the module itself is not rebound)."""
    title = 'programs run as the doctest of a module that pre-defines every name they bind'

    def run_case(self, hist):
        import sys
        frame = tuple(hist[0][1:])
        items = [tuple(it) for it in hist[1:]]
        path, modname, sent = module_for_programs()
        b = progs.build(frame, items, extra_pre=sent)
        text = b['text']
        case = {'doctest': text, 'module': 'tracer + sentinel bindings for every name the templates bind'}
        atoms = []
        mod = sys.modules.get(modname)
        if mod is not None:
            del mod.TRACE[:]
        r = harness.run_doctest(text, ns=harness.NS(), modpath=path, callname='f')
        nontrivial = len(b['stmts']) >= 2 or bool(b['wants'])
        if r.raised is not None:
            return {'atoms': [{'sig': 'modprog:run-raised:' + type(r.raised).__name__, 'msg': repr(r.raised)}],
                    'outcome': 'raised', 'case': case, 'nontrivial': nontrivial}
        v = harness.verdict_of(r.summary)
        exp_v = 'passed' if b['anycode'] else 'skipped'
        ref_trace = b['ns']['TRACE']
        if v != exp_v:
            atoms.append({'sig': 'modprog:verdict:%s-expected-%s' % (v, exp_v), 'msg': '%s: %s' % (r.exc_type, str(r.exc)[:300])})
        if b['anycode']:
            if r.trace != ref_trace:
                atoms.append({'sig': 'modprog:trace', 'msg': 'executed %r, plain program executes %r' % (r.trace, ref_trace)})
            elif v == exp_v:
                got_names = user_names(r.snap)
                ref_names = user_names(b['ns'])
                if got_names != ref_names:
                    diff = sorted(set(got_names.items()) ^ set(ref_names.items()))
                    atoms.append({'sig': 'modprog:bindings', 'msg': 'differing final bindings: %r' % (diff[:6],)})
                if r.stdout not in stdout_variants(b['outs'], b['echo_ok']):
                    atoms.append({'sig': 'modprog:stdout', 'msg': 'recorded %r' % (r.stdout,)})
            mod = sys.modules.get(modname)
            if mod is not None:
                changed = [n for n, val in vars(mod).items() if isinstance(val, str) and val.startswith('module-level ')
                           and val != 'module-level ' + n]
                rebound = [l.split(' = ')[0] for l in sent.splitlines() if vars(mod).get(l.split(' = ')[0]) != 'module-level ' + l.split(' = ')[0]]
                if changed or rebound:
                    atoms.append({'sig': 'modprog:module-globals-rebound', 'msg': repr((changed + rebound)[:6])})
                    for l in sent.splitlines():
                        n = l.split(' = ')[0]
                        setattr(mod, n, 'module-level ' + n)
        return {'atoms': atoms, 'outcome': '%s/%d' % (v, len(r.trace or ())), 'case': case, 'nontrivial': nontrivial}


# ----------------------------------------------------------------------------------------------
class CaptureSpec(Spec):
    prop = 'C01'
    name = 'capture'
    title = 'CaptureStdout: one capture object re-used for many parts'
    rule = ('history of uses of one CaptureStdout (suppress on/off): with-block writing a unique token, '
            'writing nothing, writing two chunks, writing then raising, writing outside the block, writing through a '
            'reference to sys.stdout taken in the first block; every '
            'history up to max_len is replayed; non-trivial = history with >= 2 captured blocks')
    max_cost = 99
    EVENTS = ['w', 'n', 'ww', 'wr', 'out', 'nl', 'ref']

    def __init__(self, max_len):
        self.max_len = max_len + 1

    def init(self):
        return None

    def enabled(self, S, hist):
        if S is None:
            return [('suppress', True), ('suppress', False)]
        return self.EVENTS

    def step(self, S, ev):
        if S is None:
            return ()
        return (S + (ev,))[-2:]     # counting abstraction only (last two events)

    def final(self, S, hist):
        return len(hist) >= 2

    def run_case(self, hist):
        from xdoctest import utils
        suppress = hist[0][1]
        outer = io.StringIO()
        saved = sys.stdout
        sys.stdout = outer
        atoms = []
        try:
            cap = utils.CaptureStdout(suppress=suppress)
            exp_parts = []
            exp_outer = ''
            saved_ref = []          # sys.stdout as seen inside the first captured block
            for i, ev in enumerate(hist[1:]):
                tok = 't%d' % i
                written = ''
                if ev == 'out':
                    print(tok)
                    exp_outer += tok + '\n'
                    continue
                try:
                    with cap:
                        if not saved_ref:
                            saved_ref.append(sys.stdout)
                        if ev == 'ref':
                            # written through the reference taken in an earlier block: still this block's output
                            saved_ref[0].write(tok + 'r\n')
                            written += tok + 'r\n'
                        if ev in ('w', 'ww', 'wr'):
                            print(tok)
                            written += tok + '\n'
                        if ev == 'ww':
                            sys.stdout.write(tok + 'b')
                            written += tok + 'b'
                        if ev == 'nl':
                            sys.stdout.write('\n')
                            written += '\n'
                        if ev == 'wr':
                            raise KeyError(tok)
                except KeyError:
                    if ev != 'wr':
                        raise
                else:
                    if ev == 'wr':
                        atoms.append({'sig': 'capture:exception-swallowed', 'msg': repr(hist)})
                exp_parts.append(written)
                if not suppress:
                    exp_outer += written
                if cap.text != written:
                    atoms.append({'sig': 'capture:text', 'msg': 'step %d (%s): text %r, written %r' % (i, ev, cap.text, written)})
                    break
                if sys.stdout is not outer:
                    atoms.append({'sig': 'capture:stdout-not-restored', 'msg': 'after step %d (%s)' % (i, ev)})
                    sys.stdout = outer
                    break
            if not atoms:
                if list(cap.parts) != exp_parts:
                    atoms.append({'sig': 'capture:parts', 'msg': '%r vs %r' % (cap.parts, exp_parts)})
                if outer.getvalue() != exp_outer:
                    atoms.append({'sig': 'capture:passthrough', 'msg': '%r vs %r' % (outer.getvalue(), exp_outer)})
        finally:
            sys.stdout = saved
        n_blocks = sum(1 for e in hist[1:] if e != 'out')
        return {'atoms': atoms, 'outcome': '%d' % n_blocks, 'case': {'suppress': suppress, 'events': list(hist[1:])},
                'nontrivial': n_blocks >= 2}


class FutureSpec(Spec):
    """a program that starts with a __future__ import is one program: the import governs every later statement, also behind
    the wants that cut the doctest into separately compiled parts (finding F41)"""
    prop = 'C01'
    name = 'future-import'
    title = 'programs starting with from __future__ import annotations, wants at every position'
    max_len = 5

    def __init__(self):
        self.rule = ('program = future import; print; function with undefined annotations (one line / def + body, chevron or dots '
                     'continuation); print of its annotations; x want after each printing statement {yes, no} x blank line after the '
                     'first want {yes, no} x docstring indentation {0, 4}; trace, stdout and verdict as the plain program compiled as '
                     'one unit; non-trivial = a want stands between the import and the annotated function')

    def histories(self, stats):
        for w1 in (False, True):
            for w3 in (False, True):
                for blank in (False, True):
                    for shape in ('oneline', 'chev', 'dots'):
                        for ind in (0, 4):
                            yield (w1, w3, blank, shape, ind)

    def hist_cost(self, hist):
        return 0

    def run_case(self, hist):
        w1, w3, blank, shape, ind = hist
        stmts = [['from __future__ import annotations'], ['P(1)'],
                 ['def fa(x: Undefined2) -> Undefined3: return T(2)'] if shape == 'oneline' else
                 ['def fa(x: Undefined2) -> Undefined3:', '    return T(2)'],
                 ['fa(0)'], ["print(sorted(fa.__annotations__.items()))"]]
        plain = '\n'.join(l for st in stmts for l in st) + '\n'
        ns = harness.new_namespace()
        import io
        import contextlib
        buf = io.StringIO()
        with contextlib.redirect_stdout(buf):
            exec(compile(plain, '<plain>', 'exec'), ns)
        exp_out, exp_trace = buf.getvalue(), list(ns['TRACE'])
        lines = []
        for i, st in enumerate(stmts):
            ps2 = '... ' if shape == 'dots' else '>>> '
            lines += ['>>> ' + st[0]] + [ps2 + l for l in st[1:]]
            if i == 1 and w1:
                lines.append('p1')
                if blank:
                    lines.append('')
            if i == 4 and w3:
                lines.append(exp_out.split('\n')[1])
        text = '\n'.join(' ' * ind + l if l else l for l in lines)
        r = harness.run_doctest(text)
        atoms = []
        if r.raised is not None:
            atoms.append({'sig': 'future:run-raised:' + type(r.raised).__name__, 'msg': repr(r.raised)})
        else:
            v = harness.verdict_of(r.summary)
            if v != 'passed':
                atoms.append({'sig': 'future:verdict:%s:%s' % (v, r.exc_type), 'msg': 'the plain program runs; the doctest is %s (%s: %s)' % (v, r.exc_type, str(r.exc)[:200])})
            elif r.trace != exp_trace or r.stdout != exp_out:
                atoms.append({'sig': 'future:behaviour-differs', 'msg': 'trace %r stdout %r, plain program %r %r' % (r.trace, r.stdout, exp_trace, exp_out)})
        return {'atoms': atoms, 'outcome': 'ok' if not atoms else 'bad', 'case': {'doctest': text}, 'nontrivial': int(w1)}


def specs(tier):
    std = [(0, False)]
    if tier == 'thorough':
        return [CaptureSpec(6),
                ProgSpec('prog-len2', 2, 99, std),
                ProgSpec('prog-frames', 2, 4, [f for f in progs.FRAMES if f != (0, False)]),
                ProgSpec('prog-len3', 3, 3, std, min_items=3),
                ProgSpec('prog-len4', 4, 2, std, min_items=4),
                ShiftSpec('prog-shift', 3, 5, std),
                ModuleBoundSpec('prog-module', 2, 99, std),
                ModuleBoundSpec('prog-module-len3', 3, 2, std, min_items=3),
                GoogleBlockSpec('prog-google', 2, 99, std), FutureSpec()]
    return [CaptureSpec(5),
            ProgSpec('prog-len2', 2, 99, std),
            ProgSpec('prog-frames', 2, 3, [f for f in progs.FRAMES if f != (0, False)]),
            ProgSpec('prog-len3', 3, 2, std, min_items=3),
            ShiftSpec('prog-shift', 3, 4, std),
            ModuleBoundSpec('prog-module', 2, 3, std),
            GoogleBlockSpec('prog-google', 2, 3, std), FutureSpec()]
