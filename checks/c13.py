"""
C13 - parsing partitions the docstring: each line is text, source or want, exactly once, in order.

Docstrings are assembled from labelled building blocks at several indentations; the reference model is
the line labeller *as the property text defines it*.  DoctestParser().parse is run on every sequence up
to the bound; the oracle is (a) the label of every line, (b) the parts reproduce the tab-expanded,
commonly de-indented docstring line for line, (c) every line_offset is the index of the part's first line.
"""
from xmc.core import Spec

LEVEL = 'model_checking'

# block name -> list of (line, intrinsic kind); kinds: prompt, cont (prefixed '...' belonging to the
# statement), inner (unprefixed line inside a statement), bare ('...' alone), other, blank
def _blocks():
    B = {}

    def sp(n):
        return ' ' * n
    for ind in (4, 0, 8):
        B['prose@%d' % ind] = [(sp(ind) + 'word words', 'other')]
        B['s1@%d' % ind] = [(sp(ind) + '>>> x%d = 1' % ind, 'prompt')]
    B['blank'] = [('', 'blank')]
    # an example of two prompt lines, 4 columns deeper than the others (legal directly after a want or a blank line)
    B['s2p@8'] = [(sp(8) + '>>> p = 1', 'prompt'), (sp(8) + '>>> q = 2', 'prompt')]
    B['tag@4'] = [(sp(4) + 'Example:', 'other')]
    B['s2@4'] = [(sp(4) + '>>> y = [1,', 'prompt'), (sp(4) + '>>>      2]', 'prompt')]
    B['s2d@4'] = [(sp(4) + '>>> for i in range(2):', 'prompt'), (sp(4) + '...     print(i)', 'cont')]
    B['s2dt@4'] = [(sp(4) + '>>> for i in range(2):', 'prompt'), (sp(4) + '...     print(i)', 'cont'),
                   (sp(4) + '...', 'bare')]
    # a statement left open on its prompt line (bracket / triple quote) and completed by '...' lines
    B['s2u@4'] = [(sp(4) + '>>> print(1,', 'prompt'), (sp(4) + '...       2)', 'cont')]
    B['sstrd@4'] = [(sp(4) + ">>> s = '''a", 'prompt'), (sp(4) + "... b'''", 'cont')]
    B['sstr@4'] = [(sp(4) + ">>> s = '''", 'prompt'), (sp(4) + '    inner', 'inner'), (sp(4) + "    '''", 'inner')]
    # a string literal whose un-prompted inner lines start in the column of the prompt itself (and not with blanks): the parser
    # hands such a line back with an explicit '... ' in front; everything behind the prompt column is content
    B['sstrp@4'] = [(sp(4) + ">>> s = '''", 'prompt'), (sp(4) + '+--+', 'innerp'), (sp(4) + "+'''", 'innerp')]
    B['w1@4'] = [(sp(4) + 'out1', 'other')]
    B['w2@4'] = [(sp(4) + 'out1', 'other'), (sp(4) + '  out2', 'other')]
    B['w1t@4'] = [(sp(4) + 'out1   ', 'other')]          # a want line ending in blanks
    B['w1@8'] = [(sp(8) + 'deeper out', 'other')]
    B['wdots@4'] = [(sp(4) + '...', 'bare')]
    # a bare '...' followed by a line that starts with '... ': two want lines after a complete statement (the wildcard and a
    # line of output that happens to start with dots), two continuation lines inside an open '...' block
    B['wdots2@4'] = [(sp(4) + '...', 'bare'), (sp(4) + '... tail', 'dotsline')]
    B['tabs1'] = [('\t>>> t = 1', 'prompt')]
    B['tabw'] = [('\tout tab', 'other')]
    return B


BLOCKS = _blocks()
NAMES = ['s1@4', 'w1@4', 'blank', 'prose@4', 'prose@0', 'prose@8', 'tag@4', 's1@0', 's1@8', 's2@4', 's2d@4',
         's2dt@4', 'sstr@4', 'w2@4', 'w1@8', 'wdots@4', 'tabs1', 'tabw', 's2u@4', 'sstrd@4', 'w1t@4', 'wdots2@4', 'sstrp@4', 's2p@8']
assert set(NAMES) == set(BLOCKS)
DEFAULT = {'s1@4', 'w1@4', 'blank', 'prose@4'}


def label_lines(blocks):
    """the labeller of the property text.  Returns [(expanded line, label, prompt_misplaced)]"""
    out = []
    prev = 'text'         # text | prompt | cont | want
    src_indent = None
    for name in blocks:
        first = True
        for (ln, kind) in BLOCKS[name]:
            ln = ln.expandtabs()
            ind = len(ln) - len(ln.lstrip())
            flag = None
            if kind in ('prompt', 'cont', 'inner', 'innerp'):
                lab = 'src'
                if kind == 'prompt' and first and prev in ('prompt', 'cont') and ind != src_indent:
                    # a prompt at another indentation directly under source (finding F8)
                    flag = 'deeper' if ind > src_indent else 'shallower'
                if kind == 'prompt' and first and (prev in ('text', 'want') or flag):
                    src_indent = ind
                # an un-prompted line in the prompt column is turned into an explicit '... ' continuation line
                newprev = 'cont' if kind in ('cont', 'innerp') else 'prompt'
            elif kind == 'dotsline' and prev in ('prompt', 'cont') and ind >= src_indent:
                lab = 'src'
                newprev = 'cont'
            elif kind == 'blank':
                lab = 'text'
                newprev = 'text'
            elif prev in ('prompt', 'cont', 'want') and ind >= src_indent:
                if kind == 'bare' and prev == 'cont':
                    lab = 'src'
                    newprev = 'cont'
                else:
                    lab = 'want'
                    newprev = 'want'
            else:
                lab = 'text'
                newprev = 'text'
            out.append((ln, lab, flag, src_indent if lab != 'text' else None, kind))
            prev = newprev
            first = False
    return out


class LabelSpec(Spec):
    prop = 'C13'
    title = 'line labelling / partition of block sequences'
    max_cost = 99

    def __init__(self, name, max_len, max_cost=99, min_len=1):
        self.name = name
        self.max_len = max_len
        self.max_cost = max_cost
        self.min_len = min_len
        self.rule = ('all sequences of <= %d building blocks out of %d (prose/blank/tag/statements in 4 prompt '
                     'styles/wants of 1-2 lines/bare "..."/tab-indented, at indentation 0/4/8), cost <= %d; '
                     'non-trivial = docstring with source and at least one want or text line after it' % (
                         max_len, len(NAMES), max_cost))

    # model state for counting: (previous line class, source indentation)
    def init(self):
        return ('text', None)

    def enabled(self, S, hist):
        return NAMES

    def cost(self, ev):
        return 0 if ev in DEFAULT else 1

    def step(self, S, ev):
        lab = label_lines_state(S, ev)
        return lab

    def final(self, S, hist):
        return len(hist) >= self.min_len and hist[-1] != 'blank'

    def run_case(self, hist):
        from xdoctest import parser as P
        from xdoctest import exceptions
        labelled = label_lines(hist)
        raw = []
        for name in hist:
            raw += [ln for ln, _ in BLOCKS[name]]
        doc = '\n'.join(raw)
        exp_lines = [x[0] for x in labelled]
        # common de-indentation of non-blank lines
        inds = [len(l) - len(l.lstrip()) for l in exp_lines if l.strip()]
        m = min(inds) if inds else 0
        exp_lines = [l[m:] for l in exp_lines]
        case = {'docstring': doc, 'labels': [x[1] for x in labelled]}
        nontrivial = 'src' in case['labels'] and any(
            lab != 'src' for lab in case['labels'][case['labels'].index('src'):])
        atoms = []
        try:
            parts = P.DoctestParser().parse(doc)
        except exceptions.DoctestParseError as ex:
            flags = [x[2] for x in labelled if x[2]]
            if flags:
                # consequence of a prompt at another indentation directly under source (F8): the
                # mislabelled prompt leaves an unbalanced statement behind
                sig = 'label:prompt-at-other-indentation-directly-under-source:' + flags[0]
            else:
                sig = 'label:parse-error'
            atoms.append({'sig': sig, 'msg': 'parse error %r' % (getattr(ex, 'orig_ex', ex),)})
            return {'atoms': atoms, 'outcome': 'parse-error', 'case': case, 'nontrivial': nontrivial}
        except Exception as ex:
            atoms.append({'sig': 'label:raises:' + type(ex).__name__, 'msg': repr(ex)})
            return {'atoms': atoms, 'outcome': 'raises', 'case': case, 'nontrivial': nontrivial}
        got = []      # (line, label, part index)
        offsets_ok = True
        for pi, p in enumerate(parts):
            if isinstance(p, str):
                got += [(l, 'text', pi) for l in p.split('\n')]
            else:
                if p.line_offset != len(got):
                    offsets_ok = False
                    atoms.append({'sig': 'partition:line_offset',
                                  'msg': 'part %d has line_offset %r but starts at line %d' % (pi, p.line_offset, len(got))})
                got += [(l, 'src', pi) for l in p.orig_lines]
                got += [(l, 'want', pi) for l in (p.want_lines or [])]
        glabels = [g[1] for g in got]
        elabels = [x[1] for x in labelled]
        if len(got) != len(exp_lines):
            atoms.append({'sig': 'partition:line-count',
                          'msg': 'docstring has %d lines, parts hold %d' % (len(exp_lines), len(got))})
        elif glabels != elabels:
            # classify each differing line
            for i, (g, e) in enumerate(zip(glabels, elabels)):
                if g != e:
                    flag = labelled[i][2]
                    # consequences of a misplaced prompt (F8) on the lines of the same statement / its want
                    j = i
                    while flag is None and j > 0 and elabels[j] in ('src', 'want'):
                        j -= 1
                        flag = labelled[j][2]
                        if elabels[j] == 'text':
                            break
                    if flag:
                        sig = 'label:prompt-at-other-indentation-directly-under-source:' + flag
                    else:
                        sig = 'label:%s-labelled-%s' % (e, g)
                    atoms.append({'sig': sig, 'msg': 'line %d %r: expected %s, parser says %s' % (i, exp_lines[i], e, g)})
                    break
        else:
            # content: every part line equals the docstring line minus the chunk's indentation
            for i, ((gl, lab, pi), el) in enumerate(zip(got, exp_lines)):
                if lab == 'text':
                    ok = gl == el
                else:
                    k = labelled[i][3] - m
                    ok = (gl == el[k:]) or (not gl.strip() and not el.strip()) or (labelled[i][4] == 'innerp' and gl == '... ' + el[k:])
                if not ok:
                    atoms.append({'sig': 'partition:content', 'msg': 'line %d: docstring %r, part holds %r' % (i, el, gl)})
                    break
            else:
                # what is executed is the source lines minus their 4 prompt columns (un-prompted lines of a string literal are
                # aligned with the code column), nothing more and nothing less
                for pi, p in enumerate(parts):
                    if isinstance(p, str):
                        continue
                    exp_exec = [l[4:] for l in p.orig_lines]
                    got_exec = list(p.exec_lines)
                    if [x.rstrip() for x in got_exec] != [x.rstrip() for x in exp_exec]:
                        atoms.append({'sig': 'partition:executable-lines', 'msg': 'part %d: source lines %r, executable lines %r' % (pi, p.orig_lines, got_exec)})
                        break
        return {'atoms': atoms[:3], 'outcome': ''.join(l[0] for l in glabels)[:12], 'case': case,
                'nontrivial': nontrivial}


def part_signature(parts):
    return [p if isinstance(p, str) else (p.line_offset, tuple(p.orig_lines), tuple(p.want_lines or ())) for p in parts]


class ReuseSpec(LabelSpec):
    """histories on one docstring: parse it, let another consumer of the parser work on the same text (the extraction
    of examples, which rebases the offsets of *its* parts), parse it again - every parse must give what the first
    one gave (no result may be shared between callers)"""
    title = 'repeated parsing of one docstring, interleaved with example extraction'

    def __init__(self, name, max_len):
        LabelSpec.__init__(self, name, max_len)
        self.rule = self.rule.replace('non-trivial =', 'each parsed, then extracted with parse_docstr_examples (freeform and google), '
                                      'then parsed twice more: all four part lists equal; non-trivial =')

    def run_case(self, hist):
        import io
        import warnings
        import contextlib
        from xdoctest import parser as P
        from xdoctest import exceptions, core
        raw = []
        for name in hist:
            raw += [ln for ln, _ in BLOCKS[name]]
        doc = '\n'.join(raw)
        case = {'docstring': doc}
        try:
            first = part_signature(P.DoctestParser().parse(doc))
        except exceptions.DoctestParseError:
            return {'atoms': [], 'outcome': 'parse-error', 'case': case, 'nontrivial': 0}
        except Exception as ex:
            return {'atoms': [{'sig': 'reuse:raises:' + type(ex).__name__, 'msg': repr(ex)}], 'outcome': 'raises', 'case': case}
        atoms = []
        with contextlib.redirect_stdout(io.StringIO()), warnings.catch_warnings():
            warnings.simplefilter('ignore')
            for style in ('freeform', 'google'):
                try:
                    exs = list(core.parse_docstr_examples(doc, callname='f', style=style))
                    for e in exs:
                        e._parse()
                except Exception:
                    pass
                for again in (1, 2):
                    try:
                        sig = part_signature(P.DoctestParser().parse(doc))
                    except Exception as ex:
                        sig = 'raises:' + type(ex).__name__
                    if sig != first:
                        atoms.append({'sig': 'reuse:parse-result-changes-after-extraction',
                                      'msg': 'after parse_docstr_examples(style=%s), parse number %d gives %r, the first parse gave %r' % (
                                          style, again, sig, first)})
                        break
                if atoms:
                    break
        return {'atoms': atoms, 'outcome': 'ok' if not atoms else 'bad', 'case': case, 'nontrivial': int(len(first) > 1)}


def label_lines_state(S, name):
    """abstract successor used only for state counting in the parent"""
    prev, src_indent = S
    for (ln, kind) in BLOCKS[name]:
        ln = ln.expandtabs()
        ind = len(ln) - len(ln.lstrip())
        if kind in ('prompt', 'cont', 'inner'):
            if kind == 'prompt' and (prev in ('text', 'want') or ind != src_indent):
                src_indent = ind
            prev = 'cont' if kind == 'cont' else 'prompt'
        elif kind == 'blank':
            prev = 'text'
        elif prev in ('prompt', 'cont', 'want') and ind >= (src_indent or 0):
            prev = 'cont' if (kind == 'bare' and prev == 'cont') else 'want'
        else:
            prev = 'text'
    return (prev, src_indent if prev != 'text' else None)


def specs(tier):
    if tier == 'thorough':
        return [LabelSpec('blocks<=5', 5), LabelSpec('blocks=6', 6, 2, min_len=6), ReuseSpec('reuse<=4', 4)]
    return [LabelSpec('blocks<=4', 4), LabelSpec('blocks=5', 5, 2, min_len=5), ReuseSpec('reuse<=3', 3)]
