"""
C12 - process-global state is restored after every outcome.

Fault enumeration: body prefix x terminating event x position x on_error x verbosity, run through
DocTest.run; after every case (returned or raised) the monitor compares sys.stdout / sys.stderr identity,
sys.path, warnings.filters / showwarning, the running event loop and the set of non-daemon threads with the
snapshot taken before.  A second spec does the same for utils.import_module_from_path, a third one runs a
normal doctest after each poisoned run (2-run histories).
"""
import io
import os
import sys
import asyncio
import warnings
import threading
import contextlib

from xmc.core import Spec
from models import harness

LEVEL = 'fault_enumeration'

PREFIX = {
    'none': [],
    'prints': ['>>> print("x")'],
    'swapout': ['>>> import sys, io', '>>> sys.stdout = io.StringIO()'],
    'filter': ['>>> import warnings', '>>> warnings.simplefilter("ignore")'],
    'warn': ['>>> import warnings', '>>> warnings.warn("w")'],
    'await': ['>>> import asyncio', '>>> await asyncio.sleep(0)'],
    'pathappend': ['>>> import sys', '>>> _n = len(sys.path)'],
    # a met module requirement: answering it means looking the module up on sys.path
    'reqmodule': ['>>> # xdoctest: +REQUIRES(module:json.decoder)', '>>> # xdoctest: +REQUIRES(module:xv_c12_unknown_mod)',
                  '>>> # xdoctest: -REQUIRES(module:xv_c12_unknown_mod)'],
}
TERM = {
    'pass': ['>>> x = 1'],
    'mismatch': ['>>> print("a")', 'b'],
    'exc': ['>>> 1/0'],
    'expexc': ['>>> 1/0', 'Traceback (most recent call last):', 'ZeroDivisionError: division by zero'],
    'exit': ['>>> import xdoctest', '>>> raise xdoctest.ExitTestException()'],
    'skip': ['>>> # xdoctest: +SKIP', '>>> 1/0'],
    'sysexit': ['>>> raise SystemExit(3)'],
    'kbd': ['>>> raise KeyboardInterrupt()'],
    'sysexit_fn': ['>>> def q():', '...     raise SystemExit(2)', '>>> print("before")', 'before', '>>> q()'],
    'kbd_await': ['>>> async def c():', '...     raise KeyboardInterrupt()', '>>> await c()'],
    'exc_await': ['>>> async def c2():', '...     raise ValueError("v")', '>>> await c2()'],
    'exc_in_print': ['>>> print("partial"); 1/0'],
    'badrepr': ['>>> class B:', '...     def __repr__(self):', '...         raise RuntimeError("r")', '>>> B()', 'zzz'],
    'compile_error': ['>>> return 5'],
    'bad_directive': ['>>> x = 1  # xdoctest: +REQUIRES(bogus)'],
    'import_ImportError': None,
    'import_SyntaxError': None,
    'import_SystemExit': None,
    'import_pathins_then_raises': None,
    'import_pathapp_then_ImportError': None,
}
IMPORT_SRC = {
    # two cooperating conditions: the module edits sys.path itself *and* then fails to import; the library's
    # temporary entry must still go away, the module's own edit is the module's business and stays
    'import_pathins_then_raises': 'import sys\nsys.path.insert(0, "/nonexistent_zz")\nraise ValueError("late")\n',
    'import_pathapp_then_ImportError': 'import sys\nsys.path.append("/nonexistent_yy")\nimport nonexistent_module_xv12c\n',
    'import_ImportError': 'import nonexistent_module_xv12\n',
    'import_SyntaxError': 'def (:\n',
    'import_SystemExit': 'raise SystemExit(4)\n',
}
DIMS = [
    ('prefix', list(PREFIX)),
    ('term', list(TERM)),
    ('pos', ['last', 'middle']),
    ('on_error', ['return', 'raise']),
    ('verbose', [0, 3]),
    # the stdout the library finds (and tees into at verbosity >= 2): a StringIO, an object that only has
    # write(), an object whose flush() raises
    ('host', ['stringio', 'writeonly', 'flushraises']),
    # sys.path as the library finds it: as it is, or starting with '' (python -c, the interactive prompt)
    ('path0', ['asis', 'empty-string-first']),
]


class WriteOnly(object):
    def __init__(self):
        self.data = []

    def write(self, s):
        self.data.append(s)
        return len(s)


class FlushRaises(io.StringIO):
    def flush(self):
        raise OSError('broken pipe (simulated)')


def current_loop():
    # the loop installed as the thread's current loop (not necessarily running)
    try:
        return getattr(asyncio.get_event_loop_policy()._local, '_loop', None)
    except Exception:
        return None


def snap():
    return {
        'current-event-loop': current_loop(),
        'sys.stdout': sys.stdout, 'sys.stderr': sys.stderr, 'sys.path': list(sys.path),
        'warnings.filters': list(warnings.filters), 'warnings.showwarning': warnings.showwarning,
        'running-loop': asyncio._get_running_loop(),
        'non-daemon-threads': sorted(t.name for t in threading.enumerate() if not t.daemon),
        'sys.displayhook': sys.displayhook, 'sys.excepthook': sys.excepthook,
    }


def diff(before, after):
    bad = []
    for k in before:
        a, b = before[k], after[k]
        same = (a is b) if k in ('sys.stdout', 'sys.stderr', 'warnings.showwarning', 'running-loop',
                                 'sys.displayhook', 'sys.excepthook', 'current-event-loop') else (a == b)
        if not same:
            bad.append(k)
    return bad


def restore(before):
    sys.stdout = before['sys.stdout']
    sys.stderr = before['sys.stderr']
    sys.path[:] = before['sys.path']
    warnings.filters[:] = before['warnings.filters']
    if hasattr(warnings, '_filters_mutated'):
        warnings._filters_mutated()
    warnings.showwarning = before['warnings.showwarning']
    sys.displayhook = before['sys.displayhook']
    sys.excepthook = before['sys.excepthook']
    cur = current_loop()
    if cur is not before.get('current-event-loop'):
        try:
            if cur is not None and not cur.is_closed():
                cur.close()
            asyncio.set_event_loop(before.get('current-event-loop'))
        except Exception:
            pass


def run_doctest_case(lines, on_error, verbose, modsrc=None, tag='c12', path_edit=None, host='stringio', path0='asis'):
    """returns (how it ended, leaked keys)"""
    from xdoctest.doctest_example import DocTest
    with contextlib.ExitStack() as stack:
        kw = {}
        modname = None
        if modsrc is not None:
            d = stack.enter_context(harness.scratch_dir(tag))
            modname = harness.unique_modname('m12', modsrc + tag)
            path = os.path.join(d, modname + '.py')
            with open(path, 'w') as f:
                f.write(modsrc)
            kw = {'modpath': path, 'callname': 'f'}
        t = DocTest('\n'.join(lines), **kw)
        t.mode = 'native'
        t.config['colored'] = False
        sink = {'stringio': io.StringIO, 'writeonly': WriteOnly, 'flushraises': FlushRaises}[host]()
        saved_out = sys.stdout
        sys.stdout = sink                  # the "original" stdout as the library finds it
        outer_path = list(sys.path)
        if path0 == 'empty-string-first':
            sys.path.insert(0, '')
        before = snap()
        try:
            try:
                t.run(on_error=on_error, verbose=verbose)
                how = 'returned'
            except BaseException as ex:
                if type(ex).__name__ == 'CaseTimeout':
                    raise
                how = 'raised:' + type(ex).__name__
            after = snap()
            exp = dict(before)
            if path_edit:        # the module under test edits sys.path itself before failing: that edit stays
                exp['sys.path'] = ([path_edit[1]] + before['sys.path']) if path_edit[0] == 'front' else (
                    before['sys.path'] + [path_edit[1]])
            bad = diff(exp, after)
        finally:
            restore(before)
            sys.path[:] = outer_path
            sys.stdout = saved_out
            if modname:
                harness.forget_modules(modname)
    return how, bad, t


class OutcomeSpec(Spec):
    prop = 'C12'
    name = 'outcomes'
    title = 'process globals after every outcome of DocTest.run'

    def __init__(self, prefix_pairs=False):
        self.max_len = len(DIMS)
        self.max_cost = 99
        self.prefix_pairs = prefix_pairs
        if prefix_pairs:
            self.name = 'outcomes-prefix-pairs'
        self.rule = ('full product of %s%s; non-trivial = the run does not simply pass (failure, propagating exception, '
                     'skip, early exit) or the body touches process state' % (
                         ', '.join('%s(%d)' % (n, len(v)) for n, v in DIMS),
                         ' with every ordered pair of two different body prefixes' if prefix_pairs else ''))

    def init(self):
        return 0

    def enabled(self, S, hist):
        if self.prefix_pairs and len(hist) == 0:
            return [(a, b) for a in PREFIX for b in PREFIX if a != b and 'none' not in (a, b)]
        return DIMS[len(hist)][1]

    def step(self, S, ev):
        return S + 1

    def final(self, S, hist):
        return len(hist) == len(DIMS)

    def run_case(self, hist):
        prefix, term, pos, on_error, verbose, host, path0 = hist
        modsrc = None
        if term.startswith('import_'):
            tl = ['>>> x = 1']
            modsrc = IMPORT_SRC[term]
        else:
            tl = TERM[term]
        plines = (PREFIX[prefix[0]] + PREFIX[prefix[1]]) if isinstance(prefix, (tuple, list)) else PREFIX[prefix]
        lines = plines + tl + (['>>> y = 2'] if pos == 'middle' else [])
        how, bad, t = run_doctest_case(lines, on_error, verbose, modsrc, host=host, path0=path0,
                                       path_edit={'import_pathins_then_raises': ('front', '/nonexistent_zz'),
                                                  'import_pathapp_then_ImportError': ('end', '/nonexistent_yy')}.get(term))
        atoms = []
        for k in bad:
            atoms.append({'sig': 'leak:%s:after-%s' % (k, term if term.startswith('import_') else how.split(':')[0]),
                          'msg': '%s changed by run(on_error=%s, verbose=%d, host stdout %s) which %s; doctest:\n%s' % (
                              k, on_error, verbose, host, how, '\n'.join(lines))})
        return {'atoms': atoms, 'outcome': how, 'case': {'doctest': '\n'.join(lines), 'module': modsrc,
                                                         'on_error': on_error, 'verbose': verbose, 'host_stdout': host},
                'nontrivial': term != 'pass' or prefix != 'none'}


class AfterPoisonSpec(Spec):
    prop = 'C12'
    name = 'run-after-poisoned-run'
    title = '2-run histories: a normal doctest after a poisoned one'

    def __init__(self):
        self.max_len = 3
        self.max_cost = 99
        self.rule = ('every (prefix, terminating event, on_error) run followed by a normal printing doctest, which must '
                     'pass and record exactly its own output; non-trivial = all')

    def histories(self, stats):
        for p in PREFIX:
            for t in TERM:
                for oe in ('return', 'raise'):
                    yield (p, t, oe)

    def hist_cost(self, hist):
        return 0

    def run_case(self, hist):
        prefix, term, on_error = hist
        modsrc = IMPORT_SRC.get(term)
        tl = ['>>> x = 1'] if modsrc else TERM[term]
        lines = PREFIX[prefix] + tl
        how, bad, t = run_doctest_case(lines, on_error, 0, modsrc, tag='c12b')
        # the library's globals were restored by the harness if needed; judge the second run on its own
        sink = io.StringIO()
        saved = sys.stdout
        sys.stdout = sink
        try:
            r = harness.run_doctest('>>> print("ok-second")\nok-second')
        finally:
            sys.stdout = saved
        atoms = []
        if r.raised is not None or harness.verdict_of(r.summary) != 'passed' or r.stdout != 'ok-second\n':
            atoms.append({'sig': 'after-poison:second-run-affected',
                          'msg': 'after %r (%s): second run %s stdout %r raised %r' % (lines, how, harness.verdict_of(r.summary), r.stdout, r.raised)})
        if sink.getvalue():
            atoms.append({'sig': 'after-poison:output-escapes-capture', 'msg': repr(sink.getvalue())})
        return {'atoms': atoms, 'outcome': how, 'case': {'first': '\n'.join(lines)}, 'nontrivial': 1}


MODS = {
    'good': 'X = 1\n',
    'pathins_raises': 'import sys\nsys.path.insert(0, "/nonexistent_zz")\nraise ValueError("late")\n',
    'pathapp_raises': 'import sys\nsys.path.append("/nonexistent_yy")\nimport nonexistent_module_xv12d\n',
    'pathins_sysexit': 'import sys\nsys.path.insert(0, "/nonexistent_zz")\nraise SystemExit(5)\n',
    'raises': 'raise ValueError("at import")\n',
    'importerror': 'import nonexistent_module_xv12b\n',
    'syntax': 'def (:\n',
    'sysexit': 'raise SystemExit(1)\n',
    'pathins': 'import sys\nsys.path.insert(0, "/nonexistent_zz")\nX = 2\n',
    'pathappend': 'import sys\nsys.path.append("/nonexistent_yy")\nX = 3\n',
    # the module removes the *first* entry of sys.path (not the library's temporary one, which sits at the end for index=-1):
    # sys.path is then shorter than the position the library remembers
    'pathpop': 'import sys\nsys.path.pop(0)\nX = 4\n',
}


class ImportSpec(Spec):
    prop = 'C12'
    name = 'import-by-path'
    title = 'sys.path and globals after utils.import_module_from_path'

    def __init__(self):
        self.max_len = 4
        self.rule = ('module kind %r x {top-level, inside a package, inside a sub-package} x index in {-1, 0} x search '
                     'directory already on sys.path {absent, front, second, end} (present only for modules that leave '
                     'sys.path alone); sys.path compared as a list; non-trivial = the import fails, the module edits '
                     'sys.path or the directory was already there' % (list(MODS),))

    def histories(self, stats):
        for k in MODS:
            for where in ('top', 'pkg', 'subpkg'):
                for index in (-1, 0):
                    for pre in ('absent', 'front', 'second', 'end'):
                        # the directory that has to go on sys.path is already there (the caller put it
                        # there): documented as a heuristic only when the module edits sys.path as well
                        if pre != 'absent' and k not in ('good', 'raises', 'importerror', 'syntax', 'sysexit'):
                            continue
                        if k == 'pathpop' and index != -1:
                            continue        # with index=0 the module would remove the library's own entry
                        yield (k, where, index, pre)
        # the recovery path of the temporary entry (the module shifted sys.path) with the directory already in front, and
        # with warnings turned into errors (python -W error, pytest filterwarnings=error)
        for k in ('pathins', 'pathpop'):
            for index in (-1, 0):
                if k == 'pathpop' and index != -1:
                    continue
                yield (k, 'top', index, 'front')
                yield (k, 'top', index, 'absent+werror')
                yield (k, 'top', index, 'front+werror')

    def hist_cost(self, hist):
        return 0

    def run_case(self, hist):
        from xdoctest import utils
        import importlib
        kind, where, index, pre = hist
        werror = pre.endswith('+werror')
        pre = pre.replace('+werror', '')
        atoms = []
        with harness.scratch_dir('c12i') as d:
            sub = {'top': '', 'pkg': 'pkgq12', 'subpkg': os.path.join('pkgq12', 'sub')}[where]
            if sub:
                os.makedirs(os.path.join(d, sub))
                open(os.path.join(d, 'pkgq12', '__init__.py'), 'w').close()
                if where == 'subpkg':
                    open(os.path.join(d, sub, '__init__.py'), 'w').close()
            name = harness.unique_modname('imod', MODS[kind] + where + str(index))
            p = os.path.join(d, sub, name + '.py')
            with open(p, 'w') as f:
                f.write(MODS[kind])
            importlib.invalidate_caches()
            outer = list(sys.path)
            if pre == 'front':
                sys.path.insert(0, d)
            elif pre == 'second':
                sys.path.insert(1, d)
            elif pre == 'end':
                sys.path.append(d)
            before = snap()
            try:
                try:
                    with warnings.catch_warnings():
                        if werror:
                            warnings.simplefilter('error')
                        m = utils.import_module_from_path(p, index=index)
                    how = 'ok'
                    expname = '.'.join(([sub.replace(os.sep, '.')] if sub else []) + [name])
                    if m.__name__ != expname:
                        atoms.append({'sig': 'import:module-name', 'msg': '%r, expected %r' % (m.__name__, expname)})
                except BaseException as ex:
                    if type(ex).__name__ == 'CaseTimeout':
                        raise
                    how = 'raised:' + type(ex).__name__
                    if kind in ('good', 'pathins', 'pathappend', 'pathpop') and not werror:
                        atoms.append({'sig': 'import:good-module-fails', 'msg': repr(ex)})
                after = snap()
                exp = dict(before)
                # what the module itself did to sys.path stays (whether or not it then failed); the
                # library's temporary entry must be gone
                if kind.startswith('pathins'):
                    exp['sys.path'] = ['/nonexistent_zz'] + before['sys.path']     # incl. a directory the caller put in front
                if kind.startswith('pathapp'):
                    exp['sys.path'] = before['sys.path'] + ['/nonexistent_yy']
                if kind == 'pathpop':
                    exp['sys.path'] = before['sys.path'][1:]
                for k in diff(exp, after):
                    atoms.append({'sig': 'leak:%s:after-import-%s' % (k, 'ok' if how == 'ok' else 'failure'),
                                  'msg': 'import of a %s module (%s, index=%d, search dir already on sys.path: %s) %s; %s: %r -> %r' % (
                                      kind, where, index, pre, how, k, exp[k] if k != 'sys.path' else [x for x in exp[k] if x not in after[k]],
                                      after[k] if k != 'sys.path' else [x for x in after[k] if x not in exp[k]])})
            finally:
                restore(before)
                sys.path[:] = outer
                harness.forget_modules(name, 'pkgq12')
        return {'atoms': atoms, 'outcome': how, 'case': {'module': MODS[kind], 'where': where, 'index': index, 'pre': pre},
                'nontrivial': kind != 'good' or pre != 'absent'}


UNDER_TEST = {
    'benign': 'X = 1\n',
    # the "unbuffered / re-encoded stdout" idiom executed at import time
    'wraps_stdout': ('import sys\nclass Unbuffered(object):\n    def __init__(self, s):\n        self.s = s\n'
                     '    def write(self, t):\n        self.s.write(t)\n        return len(t)\n'
                     '    def flush(self):\n        pass\nsys.stdout = Unbuffered(sys.stdout)\n'),
    'prints': 'print("imported")\n',
}


class ModuleUnderTestSpec(Spec):
    """the doctest belongs to a real module file which run() imports on its way (after it has created its capture, before
    the first part starts): import-time code that wraps sys.stdout (the stream the library captures and restores) must not change what the stream is
    after the run - the run gives back the object it found.  (sys.stderr is never touched by the library: a module or doctest
    body that replaces it is outside the quantifier of the property, which names bodies that replace sys.stdout.)"""
    prop = 'C12'
    name = 'module-under-test'
    title = 'process globals after running a doctest whose module replaces the standard streams at import time'
    TERMS = ['pass', 'mismatch', 'exc', 'expexc', 'skip', 'sysexit', 'exit']
    PREFIXES = ['none', 'prints', 'swapout']
    max_len = 6

    def __init__(self):
        self.rule = ('full product of module %r x body prefix %r x terminating event %r x on_error x verbosity {0, 3} x '
                     '{first import, module imported before}; sys.stdout / sys.stderr / sys.path / warning filters / loops as '
                     'found; non-trivial = the module touches a stream' % (list(UNDER_TEST), self.PREFIXES, self.TERMS))

    def histories(self, stats):
        for m in UNDER_TEST:
            for p in self.PREFIXES:
                for t in self.TERMS:
                    for oe in ('return', 'raise'):
                        for v in (0, 3):
                            for again in (False, True):
                                yield (m, p, t, oe, v, again)

    def hist_cost(self, hist):
        return 0

    def run_case(self, hist):
        m, prefix, term, on_error, verbose, again = hist
        lines = PREFIX[prefix] + TERM[term]
        from xdoctest.doctest_example import DocTest
        atoms = []
        with harness.scratch_dir('c12m') as d:
            modsrc = UNDER_TEST[m]
            modname = harness.unique_modname('m12u', modsrc + repr(hist))
            path = os.path.join(d, modname + '.py')
            with open(path, 'w') as f:
                f.write(modsrc)
            sink, esink = io.StringIO(), io.StringIO()
            saved_out, saved_err = sys.stdout, sys.stderr
            outer_path = list(sys.path)
            how = None
            try:
                for rnd in range(2 if again else 1):
                    t = DocTest('\n'.join(lines), modpath=path, callname='f')
                    t.mode = 'native'
                    t.config['colored'] = False
                    sys.stdout, sys.stderr = sink, esink
                    before = snap()
                    try:
                        t.run(on_error=on_error, verbose=verbose)
                        how = 'returned'
                    except BaseException as ex:
                        if type(ex).__name__ == 'CaseTimeout':
                            raise
                        how = 'raised:' + type(ex).__name__
                    bad = diff(before, snap())
                    restore(before)
                    for k in bad:
                        atoms.append({'sig': 'leak:%s:module-%s' % (k, m),
                                      'msg': '%s changed by run(on_error=%s, verbose=%d) (%s, %s run of a doctest of a module that holds %r); doctest:\n%s' % (
                                          k, on_error, verbose, how, 'second' if rnd else 'first', modsrc, '\n'.join(lines))})
            finally:
                sys.stdout, sys.stderr = saved_out, saved_err
                sys.path[:] = outer_path
                harness.forget_modules(modname)
        seen = set()
        uniq = []
        for a in atoms:
            if a['sig'] not in seen:
                seen.add(a['sig'])
                uniq.append(a)
        return {'atoms': uniq, 'outcome': how, 'case': {'doctest': '\n'.join(lines), 'module': UNDER_TEST[m], 'on_error': on_error,
                                                      'verbose': verbose}, 'nontrivial': int(m.startswith('wraps'))}


class RerunSpec(Spec):
    """the same DocTest object run twice, each time under another stream installed as sys.stdout (a re-run after a failure, a
    caller that swaps its own capture in between): after each run the stream found at *its* start is back"""
    prop = 'C12'
    name = 'same-object-rerun'
    title = 'process globals after running one DocTest object twice under different streams'
    TERMS = ['pass', 'mismatch', 'exc', 'expexc', 'skip', 'exit', 'sysexit']
    max_len = 5

    def __init__(self):
        self.rule = ('full product of body prefix %r x terminating event %r x on_error x verbosity of run 1 / run 2 in {(0,0), (0,3), (3,3)}; '
                     'after each of the two runs sys.stdout / sys.stderr / sys.path / warning filters as found at its start; non-trivial = all' % (
                         ['none', 'prints', 'swapout'], self.TERMS))

    def histories(self, stats):
        for p in ('none', 'prints', 'swapout'):
            for t in self.TERMS:
                for oe in ('return', 'raise'):
                    for vs in ((0, 0), (0, 3), (3, 3)):
                        yield (p, t, oe, vs)

    def hist_cost(self, hist):
        return 0

    def run_case(self, hist):
        from xdoctest.doctest_example import DocTest
        prefix, term, on_error, vs = hist
        lines = PREFIX[prefix] + TERM[term]
        t = DocTest('\n'.join(lines))
        t.mode = 'native'
        t.config['colored'] = False
        atoms = []
        saved_out = sys.stdout
        outer_path = list(sys.path)
        how = None
        try:
            for rnd, verbose in enumerate(vs):
                sink = io.StringIO()
                sys.stdout = sink
                before = snap()
                try:
                    t.run(on_error=on_error, verbose=verbose)
                    how = 'returned'
                except BaseException as ex:
                    if type(ex).__name__ == 'CaseTimeout':
                        raise
                    how = 'raised:' + type(ex).__name__
                bad = diff(before, snap())
                restore(before)
                for k in bad:
                    atoms.append({'sig': 'leak:%s:run-%d-of-the-same-object' % (k, rnd + 1),
                                  'msg': '%s changed by run %d (on_error=%s, verbose=%d, %s) of one DocTest object; doctest:\n%s' % (
                                      k, rnd + 1, on_error, verbose, how, '\n'.join(lines))})
        finally:
            sys.stdout = saved_out
            sys.path[:] = outer_path
        seen = set()
        uniq = []
        for a in atoms:
            if a['sig'] not in seen:
                seen.add(a['sig'])
                uniq.append(a)
        return {'atoms': uniq, 'outcome': how, 'case': {'doctest': '\n'.join(lines), 'on_error': on_error, 'verbose': list(vs)}, 'nontrivial': 1}


def specs(tier):
    if tier == 'thorough':
        return [OutcomeSpec(), OutcomeSpec(prefix_pairs=True), AfterPoisonSpec(), ImportSpec(), ModuleUnderTestSpec(), RerunSpec()]
    return [OutcomeSpec(), AfterPoisonSpec(), ImportSpec(), ModuleUnderTestSpec(), RerunSpec()]
