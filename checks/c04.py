"""
C04 - directive scoping: block persists, inline is local, skipped code never runs.

Spec 'unit'  : explicit-state search (visited set on the *implementation* state, run to fixpoint) over
               the real RuntimeState driven by Directive objects that Directive.extract produces from
               the event text; after every transition to_dict() must equal the reference model's
               effective state and, after the next empty update, its persistent state.
Spec 'e2e'   : all bounded histories of {block directive, statement(shape, style, inline directive,
               position, want), default option} rendered to a doctest, run through DocTest.run with a
               tracer and compared with the reference state machine.
"""
import copy
import collections

from xmc.core import Spec
from models import harness

LEVEL = 'model_checking'

REQ = {'a': 'env:XV_A==1', 'b': 'env:XV_B==1', 'm': 'env:XV_M==1'}   # XV_M=1 is set by the launcher

# directive atoms: (name, positive, arg)
D_SKIP_ON = ('SKIP', True, None)
D_SKIP_OFF = ('SKIP', False, None)


def dtext(d):
    name, pos, arg = d
    sign = '+' if pos else '-'
    if name == 'REQUIRES':
        return '%sREQUIRES(%s)' % (sign, REQ[arg])
    return sign + name


def apply_directive(st, d):
    """reference semantics of one directive on a state dict (pure)"""
    name, pos, arg = d
    st = dict(st)
    if name == 'REQUIRES':
        if arg == 'm':
            return st            # condition is met: no effect at all
        req = set(st['REQUIRES'])
        if pos:
            req.add(REQ[arg])
        else:
            req.discard(REQ[arg])
        st['REQUIRES'] = frozenset(req)
    elif name.startswith('REPORT_'):
        # report style: a *negative* report directive selects that style, a positive one is a no-op
        # (that is how the library defines its effects; the polarity is not C04's business, the
        # scope of the effect is)
        if not pos:
            for k in st:
                if k.startswith('REPORT_'):
                    st[k] = False
            st[name] = True
    else:
        st[name] = pos
    return st


# ----------------------------------------------------------------------------------------------
# unit level

UNIT_DIRECTIVES = [
    ('SKIP', True, None), ('SKIP', False, None),
    ('REQUIRES', True, 'a'), ('REQUIRES', False, 'a'),
    ('REQUIRES', True, 'b'), ('REQUIRES', False, 'b'),
    ('REQUIRES', True, 'm'), ('REQUIRES', False, 'm'),
    ('IGNORE_WANT', True, None), ('IGNORE_WANT', False, None),
    ('ELLIPSIS', True, None), ('ELLIPSIS', False, None),
    ('IGNORE_WHITESPACE', True, None),
    ('REPORT_NDIFF', False, None), ('REPORT_UDIFF', False, None), ('REPORT_CDIFF', True, None),
]
UNIT_PAIRS = [
    (('SKIP', True, None), ('ELLIPSIS', False, None)),
    (('REQUIRES', True, 'a'), ('REQUIRES', True, 'b')),
    (('REQUIRES', False, 'a'), ('IGNORE_WANT', True, None)),
]


def unit_events():
    evs = [('none',)]
    for inline in (False, True):
        for d in UNIT_DIRECTIVES:
            evs.append(('dir', inline, (d,)))
        for pair in UNIT_PAIRS:
            evs.append(('dir', inline, pair))
    return evs


def unit_text(ev, prefix='xdoctest'):
    if ev[0] == 'none':
        return 'x = 1'
    _, inline, ds = ev
    c = '# %s: %s' % (prefix, ', '.join(dtext(d) for d in ds))
    return ('x = 1  ' + c) if inline else c


def model_default_state():
    from xdoctest import directive
    st = dict(directive.DEFAULT_RUNTIME_STATE)
    st['REQUIRES'] = frozenset(st['REQUIRES'])
    return st


class UnitSpec(Spec):
    prop = 'C04'
    name = 'unit'
    case_timeout = 900          # one long case: the whole fixpoint search
    title = 'explicit-state search over the real RuntimeState to fixpoint'
    rule = ('states are reachable implementation states (all instance attributes of RuntimeState); every '
            'event of the directive alphabet (block/inline x 16 directives + 3 two-directive lines + no '
            'directive) is applied in every state; non-trivial = transition that changes the effective '
            'or the persistent state')
    max_len = 1

    def histories(self, stats):
        yield ('fixpoint',)

    def hist_cost(self, hist):
        return 0

    def run_case(self, hist):
        from xdoctest import directive
        evs = unit_events()
        # parse once per event text through the real extractor
        parsed = {}
        for ev in evs:
            ds = list(directive.Directive.extract(unit_text(ev)))
            parsed[ev] = ds
        atoms = []
        fails = []

        def key_of(rs):
            d = {}
            for k, v in sorted(vars(rs).items()):
                d[k] = repr(sorted(v.items(), key=lambda kv: kv[0])) if isinstance(v, dict) else repr(v)
            return repr(sorted(d.items()))

        def frz(d):
            return {k: (frozenset(v) if isinstance(v, (set, frozenset)) else v) for k, v in d.items()}

        rs0 = directive.RuntimeState()
        m0 = (model_default_state(), None)    # (persistent, overlay-effective or None)
        seen = {key_of(rs0): ()}
        frontier = collections.deque([(rs0, m0, ())])
        ntrans = 0
        nontriv = 0
        outcomes = collections.Counter()
        only_path = tuple(hist[1:]) if hist[0] == 'path' else None    # replay of one recorded path
        while frontier:
            rs, (mp, _), path = frontier.popleft()
            for ev in evs:
                if only_path is not None and (len(path) >= len(only_path) or ev != only_path[len(path)]):
                    continue
                ntrans += 1
                rs2 = copy.deepcopy(rs)
                # model
                if ev[0] == 'none':
                    mp2, eff = mp, mp
                else:
                    _, inline, ds = ev
                    if inline:
                        eff = mp
                        for d in ds:
                            eff = apply_directive(eff, d)
                        mp2 = mp
                    else:
                        mp2 = mp
                        for d in ds:
                            mp2 = apply_directive(mp2, d)
                        eff = mp2
                # implementation
                try:
                    rs2.update(copy.deepcopy(parsed[ev]))
                    got_eff = frz(rs2.to_dict())
                    got_items = {k: (frozenset(rs2[k]) if isinstance(rs2[k], (set, frozenset)) else rs2[k])
                                 for k in got_eff}
                    rs3 = copy.deepcopy(rs2)
                    rs3.update([])
                    got_pers = frz(rs3.to_dict())
                    err = None
                except Exception as ex:
                    err = '%s(%s)' % (type(ex).__name__, ex)
                p2 = path + (ev,)
                if err is not None:
                    fails.append((p2, [{'sig': 'unit:update-raises:' + err.split('(')[0],
                                        'msg': '%s after %s' % (err, [unit_text(e) for e in p2])}], None))
                    outcomes['raise'] += 1
                    continue
                bad = []
                if got_eff != eff:
                    diff = sorted(k for k in eff if got_eff.get(k) != eff[k])
                    bad.append({'sig': 'unit:effective-state:' + ','.join(diff),
                                'msg': 'after %s: effective %s, model %s' % (
                                    [unit_text(e) for e in p2], {k: got_eff.get(k) for k in diff},
                                    {k: eff[k] for k in diff})})
                elif got_items != eff:
                    bad.append({'sig': 'unit:getitem-differs-from-to_dict', 'msg': repr(p2)})
                if got_pers != mp2:
                    diff = sorted(k for k in mp2 if got_pers.get(k) != mp2[k])
                    bad.append({'sig': 'unit:persistent-state:' + ','.join(diff),
                                'msg': 'after %s then a plain statement: state %s, model %s' % (
                                    [unit_text(e) for e in p2], {k: got_pers.get(k) for k in diff},
                                    {k: mp2[k] for k in diff})})
                if bad:
                    fails.append((p2, bad, None))
                    outcomes['mismatch'] += 1
                    continue
                if eff != mp or mp2 != mp:
                    nontriv += 1
                outcomes['inline-changes' if eff != mp2 else ('block-changes' if mp2 != mp else 'no-change')] += 1
                k = key_of(rs2)
                if k not in seen or only_path is not None:
                    seen[k] = p2
                    frontier.append((rs2, (mp2, eff), p2))
        # alias prefixes: 'doctest:' and 'xdoc:' must parse to the same directives
        for ev in evs:
            if ev[0] == 'none' or (only_path is not None and only_path[:1] != ('prefix',)):
                continue
            base = [(d.name, d.positive, tuple(d.args), d.inline) for d in parsed[ev]]
            for prefix in ('doctest', 'xdoc', 'doc'):
                alt = [(d.name, d.positive, tuple(d.args), d.inline)
                       for d in directive.Directive.extract(unit_text(ev, prefix))]
                ntrans += 1
                if alt != base:
                    fails.append((('prefix', prefix, ev), [{'sig': 'unit:prefix-alias:' + prefix,
                                                             'msg': '%r -> %r, expected %r' % (unit_text(ev, prefix), alt, base)}], None))
        # keep the shortest witness per signature
        best = {}
        for p, at, c in fails:
            s = tuple(sorted(a['sig'] for a in at))
            if s not in best or len(repr(p)) < len(repr(best[s][0])):
                best[s] = (p, at, c)
        return {'n': ntrans, 'nontrivial': nontriv, 'outcomes': outcomes,
                'fails': [(('path',) + tuple(p), at,
                           {'path': [unit_text(e) if e[0] in ('none', 'dir') else repr(e) for e in p]})
                          for p, at, c in best.values()],
                'model_states': len(seen), 'model_transitions': ntrans,
                'case': {'events': [unit_text(e) for e in evs][:6], 'reachable_impl_states': len(seen)}}


# ----------------------------------------------------------------------------------------------
# end to end

BLOCKS = [
    (('SKIP', True, None),), (('SKIP', False, None),),
    (('REQUIRES', True, 'a'),), (('REQUIRES', False, 'a'),),
    (('REQUIRES', True, 'b'),), (('REQUIRES', False, 'b'),),
    (('REQUIRES', True, 'm'),), (('REQUIRES', False, 'm'),),
    (('IGNORE_WANT', True, None),), (('IGNORE_WANT', False, None),),
    (('ELLIPSIS', True, None),), (('ELLIPSIS', False, None),),
    (('SKIP', False, None), ('REQUIRES', False, 'a')),
    (('SKIP', True, None), ('ELLIPSIS', False, None)),
]
INLINES = [
    None,
    ('SKIP', True, None), ('SKIP', False, None),
    ('REQUIRES', True, 'a'), ('REQUIRES', False, 'a'), ('REQUIRES', True, 'm'),
    ('IGNORE_WANT', True, None), ('ELLIPSIS', False, None),
]
WANTS = ['none', 'ok', 'wrong', 'ell', 'all']      # 'all': everything printed since the previous want in the text
OPTIONS = ['+SKIP', '-SKIP', '-ELLIPSIS', '+IGNORE_WANT', '+REQUIRES(env:XV_A==1)', '+REQUIRES(env:XV_M==1)']
OPT_REQ = {'+REQUIRES(env:XV_A==1)': ('REQUIRES', True, 'a'), '+REQUIRES(env:XV_M==1)': ('REQUIRES', True, 'm')}


def e2e_events():
    evs = []
    for b in BLOCKS:
        evs.append(('block', b))
    # the same block directive followed by two bare prompt lines (still a directive on its own line)
    for b in (BLOCKS[0], BLOCKS[1], BLOCKS[2]):
        evs.append(('blockb', b))
    for shape in ('one', 'strlit', 'bracket', 'for', 'deco', 'decocls', 'forblank'):
        multi = shape in ('bracket', 'for', 'deco', 'decocls', 'forblank')
        for style in (('dots', 'chev') if multi else ('chev',)):
            for inl in INLINES:
                if shape == 'strlit' and inl not in (None, ('SKIP', True, None), ('SKIP', False, None)):
                    continue
                for where in (('first', 'last') if (multi and inl) else ('first',)):
                    for w in (['none'] if shape in ('deco', 'decocls') else WANTS):
                        evs.append(('stmt', shape, style, inl, where, w))
    return evs


E2E_EVENTS = e2e_events()
OPT_EVENTS = [('opt', o) for o in OPTIONS]


def ev_cost(ev):
    if ev[0] == 'opt':
        return 1
    if ev[0] == 'blockb':
        return 2
    if ev[0] == 'block':
        return 1 if len(ev[1]) == 1 else 2
    _, shape, style, inl, where, w = ev
    c = 0
    if shape != 'one':
        c += 1
    if style != ('chev' if shape in ('one', 'strlit') else 'dots'):
        c += 1
    if inl is not None:
        c += 1
    if where != 'first':
        c += 1
    if w != 'none':
        c += 1
    return c


def render_event(ev, k, okwant=None):
    """returns list of docstring lines; okwant = lines of a correct want chosen by the model"""
    if ev[0] == 'blockb':
        return ['>>> # xdoctest: ' + ', '.join(dtext(d) for d in ev[1]), '>>>', '>>>']
    if ev[0] == 'block':
        return ['>>> # xdoctest: ' + ', '.join(dtext(d) for d in ev[1])]
    _, shape, style, inl, where, w = ev
    c = ('  # xdoctest: ' + dtext(inl)) if inl else ''
    cf = c if where == 'first' else ''
    cl = c if where == 'last' else ''
    ps2 = '... ' if style == 'dots' else '>>> '
    if shape == 'one':
        lines = ['>>> P(%d)%s' % (k, cf)]
        out = ['p%d' % k]
    elif shape == 'strlit':
        lines = ['>>> P(%d, "# xdoctest: +SKIP", \'# doctest: +SKIP\')%s' % (k, cf)]
        out = ['p%d' % k]
    elif shape == 'bracket':
        lines = ['>>> P(%d,%s' % (k, cf), ps2 + '  1)%s' % cl]
        out = ['p%d' % k]
    elif shape == 'for':
        lines = ['>>> for i in range(2):%s' % cf, ps2 + '    P(%d)%s' % (k, cl)]
        out = ['p%d' % k, 'p%d' % k]
    elif shape == 'forblank':
        # a continuation line holding only blanks between the header and the (directive-carrying) last line
        lines = ['>>> for i in range(2):%s' % cf, ps2 + '    P(%d)' % k, ps2 + '    ', ps2 + '    v%d = 0%s' % (k, cl)]
        out = ['p%d' % k, 'p%d' % k]
    elif shape == 'deco':
        lines = ['>>> @D(%d)%s' % (k, cf), ps2 + 'def g%d():' % k, ps2 + '    pass%s' % cl]
        out = []
    elif shape == 'decocls':
        lines = ['>>> @D(%d)%s' % (k, cf), ps2 + 'class G%d:' % k, ps2 + '    pass%s' % cl]
        out = []
    if w in ('ok', 'all'):
        lines += (okwant if okwant else out)
    elif w == 'wrong':
        lines += ['WRONG%d' % k]
    elif w == 'ell':
        lines += ['p...']
    return lines


def ev_trace(ev, k):
    shape = ev[1]
    if shape in ('for', 'forblank'):
        return [k, k]
    if shape in ('deco', 'decocls'):
        return [('D', k), ('d', k)]
    return [k]


class E2ESpec(Spec):
    prop = 'C04'
    name = 'e2e'
    title = 'directive histories rendered to doctests and run through DocTest.run'
    rule = ('history = optional default option, then events from {14 block directive lines, statements in '
            '5 shapes x prompt style x 8 inline directives x position x 4 want kinds}; all histories up to '
            'max_len with total deviation cost <= max_cost; non-trivial = the model skips at least one '
            'statement, or an overlay/flag decides a want')
    assumptions = ('REQUIRES conditions use env:XV_A / env:XV_B (unset) and env:XV_M (set) owned by the launcher',)

    def __init__(self, max_len, max_cost, name='e2e', alphabet=None, with_opts=True):
        self.max_len = max_len
        self.max_cost = max_cost
        self.name = name
        self.alphabet = alphabet if alphabet is not None else E2E_EVENTS
        self.with_opts = with_opts

    def init(self):
        st = {'SKIP': False, 'IGNORE_WANT': False, 'ELLIPSIS': True, 'REQUIRES': frozenset()}
        return (tuple(sorted(st.items())), 'run', False)   # (persistent, verdict-so-far, anything ran)

    def enabled(self, S, hist):
        # once the model has failed, one more event is explored (so that "no statement after the
        # failing want runs" is observed on the implementation), then the branch stops
        if S[1] == 'failed+':
            return ()
        if not hist and self.with_opts:
            return OPT_EVENTS + self.alphabet
        return self.alphabet

    def cost(self, ev):
        return ev_cost(ev)

    def evkey(self, ev):
        return ev

    def step(self, S, ev):
        pers, verdict, ran = S
        if verdict != 'run':
            return (pers, 'failed+', ran)
        st = dict(pers)
        if ev[0] == 'opt':
            if ev[1] in OPT_REQ:
                # a default option behaves like a leading block directive
                st = apply_directive(st, OPT_REQ[ev[1]])
                return (tuple(sorted(st.items())), verdict, ran)
            name = ev[1][1:]
            st[name] = ev[1][0] == '+'
            return (tuple(sorted(st.items())), verdict, ran)
        if ev[0] in ('block', 'blockb'):
            for d in ev[1]:
                st = apply_directive(st, d)
            return (tuple(sorted(st.items())), verdict, ran)
        _, shape, style, inl, where, w = ev
        eff = apply_directive(st, inl) if inl else st
        runs = (not eff['SKIP']) and not eff['REQUIRES']
        if runs:
            ran = True
            if w != 'none' and not eff['IGNORE_WANT']:
                if w == 'wrong' or (w == 'ell' and not eff['ELLIPSIS']):
                    verdict = 'failed'
        return (pers, verdict, ran)

    def canon(self, S):
        return S

    def final(self, S, hist):
        return hist[-1][0] != 'opt'

    # full model over a history (worker side)
    def model(self, hist):
        """returns dict(trace, nontrivial, verdict, lines, opt, unspec)

        A correct want ('ok') is the statement's own output when the statement is an expression
        statement (one/strlit/bracket), and *everything printed since the previous want in the text*
        for the compound statement ('for'), which is what the property text promises to accept.  If a
        skipped statement carried a want while output was pending, "the previous want" is ambiguous
        and the rest of the history is not judged (unspec)."""
        S = self.init()
        trace = []
        verdict = 'run'
        skipped_any = False
        flag_decides = False
        pending = []
        unspec = False
        amb = False
        lines = []
        opt = None
        for i, ev in enumerate(hist):
            k = i + 1
            if ev[0] == 'opt':
                opt = ev[1]
            if ev[0] in ('opt', 'block', 'blockb'):
                S = self.step(S, ev)
                if ev[0] != 'opt':
                    lines += render_event(ev, k)
                continue
            st = dict(S[0])
            _, shape, style, inl, where, w = ev
            eff = apply_directive(st, inl) if inl else st
            runs = (not eff['SKIP']) and not eff['REQUIRES']
            own = {'for': ['p%d' % k, 'p%d' % k], 'forblank': ['p%d' % k, 'p%d' % k], 'deco': [], 'decocls': []}.get(shape, ['p%d' % k])
            okwant = None
            if verdict != 'run':
                runs = False     # after the failing want nothing runs
            if not runs:
                skipped_any = True
                # "skipped statements have no effect at all and their wants are not checked": the output pending from
                # earlier want-less statements stays pending, exactly as if the skipped statement and its want were deleted
            else:
                trace += ev_trace(ev, k)
                pending = pending + own
                if shape in ('for', 'forblank') or w == 'all':
                    okwant = list(pending)
                    if amb and w == 'ok':
                        unspec = True
                if w != 'none':
                    pending = []
                    amb = False
                if w in ('wrong', 'ell') and (eff['IGNORE_WANT'] or w == 'ell'):
                    flag_decides = True
            lines += render_event(ev, k, okwant)
            if verdict == 'run':
                S = self.step(S, ev)
                if S[1] == 'failed':
                    verdict = ('failed', i)
        if verdict == 'run':
            verdict = 'passed' if S[2] else 'skipped'
        return {'trace': trace, 'nontrivial': skipped_any or flag_decides, 'verdict': verdict,
                'text': '\n'.join(lines), 'opt': opt, 'unspec': unspec}

    def run_case(self, hist, respell=None):
        m = self.model(hist)
        text, opt, exp_trace, nontrivial, exp_verdict = m['text'], m['opt'], m['trace'], m['nontrivial'], m['verdict']
        if respell is not None:
            text = text.replace('# xdoctest:', respell)
        config = None
        if opt is not None:
            from xdoctest.doctest_example import DoctestConfig
            ns = {'options': opt if '(' in opt else opt.lower(), 'offset_linenos': False, 'colored': False, 'reportchoice': 'udiff',
                  'global_exec': None, 'supress_import_errors': False, 'verbose': 0}
            config = DoctestConfig()._populate_from_cli(ns)
        r = harness.run_doctest(text, config=config)
        atoms = []
        case = {'doctest': text, 'options': opt}
        if m['unspec']:
            # executed (must not crash the harness), counted, not judged
            return {'atoms': [], 'outcome': 'unspecified', 'case': case, 'nontrivial': 0, 'unspec': 1}
        if r.raised is not None:
            atoms.append({'sig': 'e2e:run-raised:' + type(r.raised).__name__,
                          'msg': 'run(on_error=return) raised %r' % (r.raised,)})
            return {'atoms': atoms, 'outcome': 'raised', 'case': case, 'nontrivial': nontrivial}
        got_verdict = harness.verdict_of(r.summary)
        ev_v = exp_verdict[0] if isinstance(exp_verdict, tuple) else exp_verdict
        if r.trace != exp_trace:
            extra = [t for t in (r.trace or []) if t not in exp_trace]
            missing = [t for t in exp_trace if t not in (r.trace or [])]
            kind = 'ran-skipped-code' if extra else ('skipped-enabled-code' if missing else 'order')
            atoms.append({'sig': 'e2e:trace:' + kind,
                          'msg': 'executed %r, model %r (verdict %s, model %s)' % (r.trace, exp_trace, got_verdict, ev_v)})
        if got_verdict != ev_v:
            atoms.append({'sig': 'e2e:verdict:%s-expected-%s' % (got_verdict, ev_v),
                          'msg': 'summary %s (%s: %s), model %s' % (got_verdict, r.exc_type, str(r.exc)[:200], exp_verdict)})
        elif ev_v == 'failed' and r.exc_type != 'GotWantException':
            atoms.append({'sig': 'e2e:failed-with:' + str(r.exc_type),
                          'msg': 'expected a got/want failure, got %s: %s' % (r.exc_type, str(r.exc)[:200])})
        return {'atoms': atoms, 'outcome': '%s/%d' % (got_verdict, len(r.trace or ())), 'case': case,
                'nontrivial': nontrivial}


class SharedOptSpec(E2ESpec):
    """the doctests of one run share the default options (one dict handed to every RuntimeState, as under the native runner and
    pytest): what doctest A switches on or off with block directives lasts to the end of A - doctest B, run afterwards under
    the same options object, behaves as the model says for B alone, and the options object is unchanged"""
    title = 'block directives of one doctest vs the next doctest under the same default options'

    def __init__(self, name, len_a=2, len_b=2, cost=3):
        E2ESpec.__init__(self, len_a, cost, name, alphabet=SUB_ALPHABET, with_opts=False)
        self.len_b = len_b
        self.rule = ('default option in %r (or none) x doctest A = history of <= %d events (cost <= %d) ending with a block directive x '
                     'doctest B = every history of <= %d events of one-line statements (with / without inline directive, wrong want); '
                     'B is judged against the model of B alone; non-trivial = all' % (OPTIONS, len_a, cost, len_b))

    def final(self, S, hist):
        return hist[-1][0] in ('block', 'blockb')

    def b_histories(self):
        stm = [ev for ev in SUB_ALPHABET if ev[0] == 'stmt']
        out = [(a,) for a in stm]
        if self.len_b >= 2:
            out += [(a, b) for a in stm[:6] for b in stm]
        return out

    def run_case(self, hist):
        import copy
        from xdoctest.doctest_example import DocTest, DoctestConfig
        atoms = []
        n = 0
        case = None
        ma = self.model(hist)
        for opt in [None] + list(OPTIONS):
            for hb in self.b_histories():
                mb = self.model(((('opt', opt),) if opt else ()) + tuple(hb))
                if mb['unspec']:
                    continue
                ns = {'options': (opt or '') if '(' in (opt or '') else (opt or '').lower(), 'offset_linenos': False, 'colored': False, 'reportchoice': 'udiff',
                      'global_exec': None, 'supress_import_errors': False, 'verbose': 0}
                config = DoctestConfig()._populate_from_cli(ns)
                shared = config['default_runtime_state']
                before = copy.deepcopy(dict(shared))
                res = []
                for text in (ma['text'], mb['text']):
                    r = harness.run_doctest(text, config=config)
                    res.append(r)
                n += 1
                rb = res[1]
                got_v = 'raised' if rb.raised is not None else harness.verdict_of(rb.summary)
                exp_v = mb['verdict'][0] if isinstance(mb['verdict'], tuple) else mb['verdict']
                if rb.trace != mb['trace'] or got_v != exp_v:
                    atoms.append({'sig': 'shared-options:next-doctest-affected',
                                  'msg': 'options %r; after the doctest\n%s\nthe doctest\n%s\nexecuted %r and is %s; alone the model says %r and %s' % (
                                      opt, ma['text'], mb['text'], rb.trace, got_v, mb['trace'], exp_v)})
                    case = case or {'A': ma['text'], 'B': mb['text'], 'options': opt}
                if dict(shared) != before:
                    atoms.append({'sig': 'shared-options:default-options-rewritten', 'msg': 'options %r: %r -> %r' % (opt, before, dict(shared))})
                    case = case or {'A': ma['text'], 'B': mb['text'], 'options': opt}
        seen = set()
        uniq = []
        for a in atoms:
            if a['sig'] not in seen:
                seen.add(a['sig'])
                uniq.append(a)
        return {'atoms': uniq, 'outcome': 'ok' if not uniq else 'bad', 'case': case or {'A': ma['text']}, 'nontrivial': 1, 'n': n}


SPELLINGS = ['# doctest:', '# xdoc:', '# XDOCTEST:', '# Doctest:', '# xDoc:', '#xdoctest:', '#  DOC:', '# xdoctest:  ']


class SpellingSpec(E2ESpec):
    """the comment prefix of a directive may be spelled doctest: / xdoctest: / xdoc: / doc: in any letter case and with
    any blanks around it (directive.DIRECTIVE_RE); every history behaves as the model says under every spelling"""
    title = 'directive histories under every spelling of the directive prefix'

    def __init__(self, max_len, max_cost, name):
        E2ESpec.__init__(self, max_len, max_cost, name, with_opts=False)
        self.rule = ('histories of <= %d events over the e2e alphabet, cost <= %d, holding at least one directive, each rendered '
                     'with each of %d spellings of the directive prefix (%s); oracle and non-trivial as for the e2e specs'
                     % (max_len, max_cost, len(SPELLINGS), ' / '.join(repr(x) for x in SPELLINGS)))

    def final(self, S, hist):
        return any(ev[0] in ('block', 'blockb') or (ev[0] == 'stmt' and ev[3] is not None) for ev in hist)

    def run_case(self, hist):
        atoms, outcomes, nontrivial, unspec = [], [], 0, 0
        case = None
        for sp in SPELLINGS:
            r = E2ESpec.run_case(self, hist, respell=sp)
            if r.get('unspec'):
                return r
            for a in r['atoms']:
                atoms.append({'sig': a['sig'] + '@spelling:' + sp.strip(), 'msg': a['msg']})
                case = case or r['case']
            outcomes.append(r['outcome'])
            nontrivial = r['nontrivial']
        return {'atoms': atoms, 'outcome': outcomes[0] if len(set(outcomes)) == 1 else 'spelling-dependent',
                'case': case or r['case'], 'nontrivial': nontrivial}


SUB_ALPHABET = [ev for ev in E2E_EVENTS
                if ev[0] in ('block', 'blockb') or (ev[0] == 'stmt' and ev[1] == 'one' and ev[5] in ('none', 'wrong'))]


class PluginSpec(E2ESpec):
    """the same directive histories as the doctest of a module function run through the *pytest plugin* (which
    decides on its own, before running, whether a doctest is "disabled"): executed statements and verdict as the model"""
    title = 'directive histories through pytest --xdoctest'
    batch = 8

    def __init__(self, max_len, max_cost, name):
        E2ESpec.__init__(self, max_len, max_cost, name, alphabet=SUB_ALPHABET, with_opts=False)
        self.rule = ('histories of <= %d events over block directives and one-line statements (with / without inline '
                     'directive, with / without a wrong want), cost <= %d, written into a module and run with pytest --xdoctest; '
                     'non-trivial = as for the e2e specs' % (max_len, max_cost))

    def run_case(self, hist):
        import io
        import os
        import sys
        import contextlib
        import pytest
        m = self.model(hist)
        if m['unspec'] or not m['text'].strip():
            return {'atoms': [], 'outcome': 'unspecified', 'case': {'doctest': m['text']}, 'nontrivial': 0, 'unspec': 1}
        body = '\n'.join(('        ' + l) if l else '' for l in m['text'].split('\n'))
        src = 'TRACE = []\n' + harness.PRE + '\n\ndef f():\n    """\n    Example:\n%s\n    """\n' % body
        outcome = {}

        class Rec(object):
            def pytest_runtest_logreport(self, report):
                if report.when == 'call' or (report.when == 'setup' and report.outcome != 'passed'):
                    outcome['f'] = report.outcome
        atoms = []
        with harness.scratch_dir('c04p') as d:
            modname = harness.unique_modname('m04p', src)
            with open(os.path.join(d, modname + '.py'), 'w') as fh:
                fh.write(src)
            cwd = os.getcwd()
            os.chdir(d)
            buf = io.StringIO()
            try:
                with contextlib.redirect_stdout(buf), contextlib.redirect_stderr(buf), harness.fresh_process_warning_filters():
                    pytest.main(['--xdoctest', '--xdoctest-style=google', *harness.PYTEST_ISOLATION_ARGS, '-q', '--rootdir', d, '-c', '/dev/null',
                                 modname + '.py'], plugins=[Rec()])
                mod = sys.modules.get(modname)
                trace = list(mod.TRACE) if mod is not None else []
            except BaseException as ex:
                if type(ex).__name__ == 'CaseTimeout':
                    raise
                atoms.append({'sig': 'plugin:raises:' + type(ex).__name__, 'msg': repr(ex)})
                trace = None
            finally:
                os.chdir(cwd)
                harness.forget_modules(modname)
        exp_v = m['verdict'][0] if isinstance(m['verdict'], tuple) else m['verdict']
        got_v = outcome.get('f')
        if trace is not None:
            if trace != m['trace']:
                extra = [t for t in trace if t not in m['trace']]
                kind = 'ran-skipped-code' if extra else 'skipped-enabled-code'
                atoms.append({'sig': 'plugin:trace:' + kind, 'msg': 'pytest executed %r, model %r (reported %s)' % (trace, m['trace'], got_v)})
            if got_v != exp_v:
                atoms.append({'sig': 'plugin:verdict:%s-expected-%s' % (got_v, exp_v), 'msg': 'doctest:\n%s' % m['text']})
        return {'atoms': atoms, 'outcome': '%s/%d' % (got_v, len(trace or ())), 'case': {'doctest': m['text']}, 'nontrivial': m['nontrivial']}


# ----------------------------------------------------------------------------------------------
# the requirement conditions themselves

# condition -> function(env value of XV_Q or None, flag on argv) -> satisfied?
COND = collections.OrderedDict([
    ('env:XV_Q', lambda q, fl: bool(q)),
    ('env:XV_Q==1', lambda q, fl: q == '1'),
    ('env:XV_Q!=1', lambda q, fl: q != '1'),
    ('env:XV_Q==0', lambda q, fl: q == '0'),
    ('module:os', lambda q, fl: True),
    ('module:json.decoder', lambda q, fl: True),
    ('module:xv_no_such_module', lambda q, fl: False),
    ('module:json.xv_no_such_submodule', lambda q, fl: False),
    ('linux', lambda q, fl: True), ('Linux', lambda q, fl: True), ('win32', lambda q, fl: False), ('darwin', lambda q, fl: False),
    ('posix', lambda q, fl: True), ('nt', lambda q, fl: False),
    ('cpython', lambda q, fl: True), ('CPython', lambda q, fl: True), ('pypy', lambda q, fl: False),
    ('py3', lambda q, fl: True), ('PY3', lambda q, fl: True), ('py2', lambda q, fl: False),
    ('--xv-flag', lambda q, fl: fl),
])
QVALS = [None, '', '0', '1']


class ReqCondSpec(Spec):
    """which REQUIRES conditions are met: one or two block requirements (optionally the first removed again),
    then a statement; the statement runs iff every pending condition is satisfied in the given environment"""
    prop = 'C04'
    name = 'requires-conditions'
    title = 'REQUIRES condition table (env / module / platform / implementation / command-line flag)'
    assumptions = ('the sandbox is CPython 3 on Linux (platform tags are judged against that)',)
    max_len = 3
    max_cost = 99
    batch = 64

    def __init__(self):
        self.rule = ('%d conditions x environment XV_Q in %r x command-line flag present/absent: histories +REQUIRES(c1) '
                     '[, +REQUIRES(c2)] [, -REQUIRES(c1)], statement; non-trivial = all' % (len(COND), QVALS))

    def histories(self, stats):
        cs = list(COND)
        for q in range(len(QVALS)):
            for fl in (False, True):
                for c1 in cs:
                    yield (q, fl, c1)
                    yield (q, fl, c1, '-')
                    for c2 in cs:
                        if c2 != c1 and (('XV_Q' in c1 + c2) or q == 0) and (('--' in c1 + c2) or not fl):
                            yield (q, fl, c1, c2)
                            yield (q, fl, c1, c2, '-')
        # two-step histories in one process: the same condition evaluated again after the environment / the
        # command line changed (an answer must not be remembered)
        for c in ('--xv-flag', 'env:XV_Q', 'env:XV_Q==1', 'env:XV_Q!=1', 'module:os'):
            for q1 in range(len(QVALS)):
                for q2 in range(len(QVALS)):
                    for f1 in (False, True):
                        for f2 in (False, True):
                            if ('XV_Q' in c or (q1 == 0 and q2 == 0)) and ('--' in c or (not f1 and not f2)):
                                yield ('twice', q1, f1, q2, f2, c)

    def hist_cost(self, hist):
        return len(hist)

    def run_case(self, hist):
        import os
        import sys
        if hist[0] == 'twice':
            return self.run_twice(hist)
        q, fl = QVALS[hist[0]], hist[1]
        conds = [c for c in hist[2:] if c != '-']
        remove = hist[-1] == '-'
        lines = ['>>> # xdoctest: +REQUIRES(%s)' % c for c in conds]
        if remove:
            lines.append('>>> # xdoctest: -REQUIRES(%s)' % conds[0])
        lines += ['>>> T(1)']
        pending = [c for c in (conds[1:] if remove else conds) if not COND[c](q, fl)]
        exp_runs = not pending
        old_env = os.environ.get('XV_Q')
        old_argv = sys.argv
        try:
            if q is None:
                os.environ.pop('XV_Q', None)
            else:
                os.environ['XV_Q'] = q
            sys.argv = ['xmc'] + (['--xv-flag'] if fl else [])
            r = harness.run_doctest('\n'.join(lines))
        finally:
            sys.argv = old_argv
            if old_env is None:
                os.environ.pop('XV_Q', None)
            else:
                os.environ['XV_Q'] = old_env
        atoms = []
        if r.raised is not None:
            atoms.append({'sig': 'requires:run-raised:' + type(r.raised).__name__, 'msg': repr(r.raised)})
        else:
            v = harness.verdict_of(r.summary)
            ran = r.trace == [1]
            if v == 'failed':
                atoms.append({'sig': 'requires:condition-fails-the-doctest', 'msg': '%r: %s %s' % (lines, r.exc_type, str(r.exc)[:200])})
            elif ran != exp_runs:
                kind = 'ran-although-unmet' if ran else 'skipped-although-met'
                fam = (pending or conds)[0].split(':')[0].lstrip('-').lower() if (pending or conds) else ''
                atoms.append({'sig': 'requires:%s:%s' % (kind, 'flag' if fam.startswith('xv') else fam),
                              'msg': 'XV_Q=%r, --xv-flag %s: %r -> statement %s, pending by the documented rules: %r' % (
                                  q, 'given' if fl else 'absent', lines, 'ran' if ran else 'did not run', pending)})
            elif (v == 'skipped') != (not exp_runs):
                atoms.append({'sig': 'requires:verdict', 'msg': '%r: %s' % (lines, v)})
        return {'atoms': atoms, 'outcome': 'runs' if exp_runs else 'skips', 'case': {'doctest': '\n'.join(lines), 'XV_Q': q, 'flag': fl},
                'nontrivial': 1}


def _run_twice(self, hist):
    import os
    import sys
    _, q1, f1, q2, f2, c = hist
    text = '>>> # xdoctest: +REQUIRES(%s)\n>>> T(1)' % c
    atoms = []
    old_env = os.environ.get('XV_Q')
    old_argv = sys.argv
    obs = []
    try:
        for step, (qi, fl) in enumerate(((q1, f1), (q2, f2))):
            q = QVALS[qi]
            if q is None:
                os.environ.pop('XV_Q', None)
            else:
                os.environ['XV_Q'] = q
            sys.argv = ['xmc'] + (['--xv-flag'] if fl else [])
            r = harness.run_doctest(text)
            ran = r.raised is None and r.trace == [1]
            exp = COND[c](q, fl)
            obs.append(ran)
            if r.raised is not None or ran != exp:
                atoms.append({'sig': 'requires:answer-depends-on-an-earlier-evaluation' if step else 'requires:first-evaluation-wrong',
                              'msg': 'REQUIRES(%s): evaluation %d with XV_Q=%r, --xv-flag %s: statement %s, expected %s (history %r)' % (
                                  c, step + 1, q, 'given' if fl else 'absent', 'ran' if ran else 'did not run', 'run' if exp else 'skip', hist)})
                break
    finally:
        sys.argv = old_argv
        if old_env is None:
            os.environ.pop('XV_Q', None)
        else:
            os.environ['XV_Q'] = old_env
    return {'atoms': atoms, 'outcome': '%s' % obs, 'case': {'doctest': text, 'history': list(hist)}, 'nontrivial': 1}


ReqCondSpec.run_twice = _run_twice


def specs(tier):
    if tier == 'thorough':
        return [UnitSpec(), ReqCondSpec(), E2ESpec(2, 99, 'e2e-len2'), E2ESpec(3, 5, 'e2e-len3'),
                E2ESpec(4, 3, 'e2e-len4'),
                E2ESpec(5, 5, 'e2e-sub5', alphabet=SUB_ALPHABET, with_opts=False), PluginSpec(3, 4, 'plugin-len3'),
                SpellingSpec(3, 4, 'spelling-len3'), SharedOptSpec('shared-options', 3, 2, 4)]
    return [UnitSpec(), ReqCondSpec(), E2ESpec(2, 5, 'e2e-len2'), E2ESpec(3, 3, 'e2e-len3'), PluginSpec(3, 2, 'plugin-len3'),
            SpellingSpec(3, 2, 'spelling-len3'), SharedOptSpec('shared-options', 2, 1, 3)]
