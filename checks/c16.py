"""
C16 - static and dynamic analysis find the same doctests.

The C07 module generator (definitions that execute on import, plus functools.wraps decorators, imported
names, lambdas) is collected with analysis='static' and analysis='dynamic'; each side is the other's
model: equal sets of (identifier, doctest source) are required, per style.
"""
import os

from xmc.core import Spec
from models import layouts, harness
from checks import c07

LEVEL = 'model_checking'


class StaticDynamicSpec(c07.ModuleSpec):
    prop = 'C16'
    title = 'static vs dynamic collection of the same generated module'

    def __init__(self, name, max_len, max_cost, min_len=1, blocks=False):
        c07.ModuleSpec.__init__(self, name, max_len, max_cost, min_len, blocks=blocks)
        self.rule = self.rule.replace('collected under the 3 styles', 'collected statically and dynamically under the 3 styles')

    def run_case(self, hist):
        b = layouts.build(hist)
        src = b['source']
        modname = harness.unique_modname('m16', src)
        atoms = []
        outcome = []
        with harness.scratch_dir('c16') as d:
            path = os.path.join(d, modname + '.py')
            with open(path, 'w') as f:
                f.write(src)
            try:
                for style in layouts.STYLES:
                    res = {}
                    for an in ('static', 'dynamic'):
                        try:
                            exs = c07.collect(path, style, an)
                        except Exception as ex:
                            atoms.append({'sig': 'collect-raises:%s:%s' % (an, type(ex).__name__), 'msg': '%s: %r' % (style, ex)})
                            res = None
                            break
                        res[an] = {e.unique_callname: e.docsrc for e in exs}
                    if res is None:
                        continue
                    outcome.append(len(res['static']))
                    so = sorted(set(res['static']) - set(res['dynamic']))
                    do = sorted(set(res['dynamic']) - set(res['static']))
                    for ident in so:
                        atoms.append({'sig': 'static-only:' + c07.kind_of(ident.split(':')[0].split('.')[-1]),
                                      'msg': 'style=%s: %s found by static analysis only' % (style, ident)})
                    for ident in do:
                        atoms.append({'sig': 'dynamic-only:' + c07.kind_of(ident.split(':')[0].split('.')[-1]),
                                      'msg': 'style=%s: %s found by dynamic analysis only' % (style, ident)})
                    for ident in sorted(set(res['static']) & set(res['dynamic'])):
                        if res['static'][ident] != res['dynamic'][ident]:
                            atoms.append({'sig': 'docsrc-differs:' + c07.kind_of(ident.split(':')[0].split('.')[-1]),
                                          'msg': 'style=%s %s: static %r dynamic %r' % (style, ident, res['static'][ident], res['dynamic'][ident])})
            finally:
                harness.forget_modules(modname)
        seen = set()
        uniq = []
        for a in atoms:
            if a['sig'] not in seen:
                seen.add(a['sig'])
                uniq.append(a)
        return {'atoms': uniq, 'outcome': '/'.join(map(str, outcome)), 'case': {'module': src},
                'nontrivial': bool(outcome) and max(outcome) >= 2}


def specs(tier):
    if tier == 'thorough':
        return [StaticDynamicSpec('modules<=2', 2, 99), StaticDynamicSpec('modules=3', 3, 3, min_len=3),
                StaticDynamicSpec('blocks<=3', 3, 99, blocks=True)]
    return [StaticDynamicSpec('modules<=2', 2, 99), StaticDynamicSpec('modules=3', 3, 2, min_len=3),
            StaticDynamicSpec('blocks<=2', 2, 99, blocks=True)]
