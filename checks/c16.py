"""
C16 - static and dynamic analysis find the same doctests.

The C07 module generator (definitions that execute on import, plus functools.wraps decorators, imported
names, lambdas) is collected with analysis='static' and analysis='dynamic'; each side is the other's
model: equal sets of (identifier, doctest source) are required, per style.
"""
import os

from xmc.core import Spec
from models import layouts, harness
from checks import c07

LEVEL = 'model_checking'


class StaticDynamicSpec(c07.ModuleSpec):
    prop = 'C16'
    title = 'static vs dynamic collection of the same generated module'

    def __init__(self, name, max_len, max_cost, min_len=1, blocks=False):
        c07.ModuleSpec.__init__(self, name, max_len, max_cost, min_len, blocks=blocks)
        self.rule = self.rule.replace('collected under the 3 styles', 'collected statically and dynamically under the 3 styles')

    def run_case(self, hist):
        b = layouts.build(hist)
        src = b['source']
        modname = harness.unique_modname('m16', src)
        atoms = []
        outcome = []
        with harness.scratch_dir('c16') as d:
            path = os.path.join(d, modname + '.py')
            with open(path, 'w') as f:
                f.write(src)
            try:
                for style in layouts.STYLES:
                    res = {}
                    for an in ('static', 'dynamic'):
                        try:
                            exs = c07.collect(path, style, an)
                        except Exception as ex:
                            atoms.append({'sig': 'collect-raises:%s:%s' % (an, type(ex).__name__), 'msg': '%s: %r' % (style, ex)})
                            res = None
                            break
                        res[an] = {e.unique_callname: e.docsrc for e in exs}
                    if res is None:
                        continue
                    outcome.append(len(res['static']))
                    so = sorted(set(res['static']) - set(res['dynamic']))
                    do = sorted(set(res['dynamic']) - set(res['static']))
                    for ident in so:
                        atoms.append({'sig': 'static-only:' + c07.kind_of(ident.split(':')[0].split('.')[-1]),
                                      'msg': 'style=%s: %s found by static analysis only' % (style, ident)})
                    for ident in do:
                        atoms.append({'sig': 'dynamic-only:' + c07.kind_of(ident.split(':')[0].split('.')[-1]),
                                      'msg': 'style=%s: %s found by dynamic analysis only' % (style, ident)})
                    for ident in sorted(set(res['static']) & set(res['dynamic'])):
                        if res['static'][ident] != res['dynamic'][ident]:
                            atoms.append({'sig': 'docsrc-differs:' + c07.kind_of(ident.split(':')[0].split('.')[-1]),
                                          'msg': 'style=%s %s: static %r dynamic %r' % (style, ident, res['static'][ident], res['dynamic'][ident])})
            finally:
                harness.forget_modules(modname)
        seen = set()
        uniq = []
        for a in atoms:
            if a['sig'] not in seen:
                seen.add(a['sig'])
                uniq.append(a)
        return {'atoms': uniq, 'outcome': '/'.join(map(str, outcome)), 'case': {'module': src},
                'nontrivial': bool(outcome) and max(outcome) >= 2}


class PackageMemberSpec(Spec):
    """the files of a regular package analysed one by one: __init__.py, __main__.py, a submodule, a module of a
    sub-package - for each file the two analyses must describe *that file*"""
    prop = 'C16'
    name = 'package-members'
    title = 'static vs dynamic analysis of the individual files of a package'
    FILES = ['__init__.py', '__main__.py', 'sub.py', 'inner/__init__.py', 'inner/__main__.py', 'inner/deep.py']
    max_len = 2

    def __init__(self):
        self.rule = ('package holding %r, every file with its own documented function, class and method; each file path x '
                     '3 styles analysed statically and dynamically; non-trivial = all' % (self.FILES,))

    def histories(self, stats):
        for f in self.FILES:
            for st in layouts.STYLES:
                yield (f, st)

    def hist_cost(self, hist):
        return 0

    def run_case(self, hist):
        fname, style = hist
        atoms = []
        with harness.scratch_dir('c16p') as d:
            pk = os.path.join(d, 'pk16')
            os.makedirs(os.path.join(pk, 'inner'))
            for i, f in enumerate(self.FILES):
                tag = 'file%d' % i
                src = ('def fn_%s():\n    """\n    Example:\n        >>> print(%r)\n        %s\n    """\n\n\n'
                       'class K_%s(object):\n    """\n    Example:\n        >>> print(%r)\n        %s\n    """\n'
                       '    def m(self):\n        """\n        Example:\n            >>> print(%r)\n            %s\n        """\n' % (
                           tag, 'tok_f_' + tag, 'tok_f_' + tag, tag, 'tok_k_' + tag, 'tok_k_' + tag, 'tok_m_' + tag, 'tok_m_' + tag))
                with open(os.path.join(pk, f), 'w') as fh:
                    fh.write(src)
            path = os.path.join(pk, fname)
            res = {}
            try:
                for an in ('static', 'dynamic'):
                    try:
                        exs = c07.collect(path, style, an)
                        res[an] = sorted((e.unique_callname, e.docsrc) for e in exs)
                    except Exception as ex:
                        atoms.append({'sig': 'package-member:collect-raises:%s:%s' % (an, type(ex).__name__), 'msg': '%s %s: %r' % (fname, style, ex)})
            finally:
                harness.forget_modules('pk16')
            if len(res) == 2 and res['static'] != res['dynamic']:
                atoms.append({'sig': 'package-member:analyses-differ:' + os.path.basename(fname),
                              'msg': '%s (style %s): static %r, dynamic %r' % (fname, style, [r[0] for r in res['static']], [r[0] for r in res['dynamic']])})
            tag = 'file%d' % self.FILES.index(fname)
            for an, r in res.items():
                if any(tag not in src_ for _, src_ in r) or len(r) != 3:
                    atoms.append({'sig': 'package-member:%s-describes-another-file' % an,
                                  'msg': '%s (style %s): %s analysis yields %r' % (fname, style, an, [x[0] for x in r])})
        return {'atoms': atoms, 'outcome': 'ok' if not atoms else 'bad', 'case': {'file': fname, 'style': style}, 'nontrivial': 1}


class RedefinitionSpec(Spec):
    """two module files with the same base name analysed one after the other in one process (known finding F43: the dynamic
    analysis of the second file is answered from sys.modules)"""
    prop = 'C16'
    name = 'redefinitions'
    title = 'same module name in two directories, analysed one after the other'
    # (one name defined in both branches of an if/else or try/except was tried here as well; by DESIGN 3 rule 5 a definition
    # that never executes is outside C16 - static analysis cannot know which branch runs - so those cases were dropped)
    CASES = ['same-basename', 'same-basename-static-first']
    max_len = 2

    def __init__(self):
        self.rule = 'cases %r x 3 styles; static and dynamic analysis must give the same identifiers with the same source; non-trivial = all' % (self.CASES,)

    def histories(self, stats):
        for c in self.CASES:
            for st in layouts.STYLES:
                yield (c, st)

    def hist_cost(self, hist):
        return 0

    def run_case(self, hist):
        case, style = hist
        atoms = []
        doc = 'def %s():\n    """\n    Example:\n        >>> print(%r)\n        %s\n    """\n'

        def indent(t):
            return ''.join('    ' + l + '\n' for l in t.split('\n') if l)
        with harness.scratch_dir('c16r') as d:
            mods = []
            try:
                if case.startswith('same-basename'):
                    name = harness.unique_modname('m16same', case + style)
                    paths = []
                    for sub, tok in (('dirA', 'tok_in_a'), ('dirB', 'tok_in_b')):
                        os.makedirs(os.path.join(d, sub))
                        pth = os.path.join(d, sub, name + '.py')
                        with open(pth, 'w') as f:
                            f.write(doc % ('only_' + sub.lower(), tok, tok))
                        paths.append(pth)
                    mods.append(name)
                    order = ('static', 'dynamic') if case.endswith('static-first') else ('dynamic', 'static')
                    res = {}
                    for pth in paths:
                        for an in order:
                            res[(pth, an)] = sorted((e.unique_callname, e.docsrc) for e in c07.collect(pth, style, an))
                    pb = paths[1]
                    if res[(pb, 'static')] != res[(pb, 'dynamic')]:
                        atoms.append({'sig': 'redef:same-basename:dynamic-describes-the-module-imported-first',
                                      'msg': 'style=%s: after dirA/%s.py was analysed, dirB/%s.py gives static %r, dynamic %r' % (
                                          style, name, name, [r[0] for r in res[(pb, 'static')]], [r[0] for r in res[(pb, 'dynamic')]])})
                else:
                    a = doc % ('r', 'tok_first', 'tok_first')
                    b = doc % ('r', 'tok_second', 'tok_second')
                    if case == 'if-else':
                        src = 'if True:\n' + indent(a) + 'else:\n' + indent(b)
                    elif case == 'if-else-second-runs':
                        src = 'if False:\n' + indent(a) + 'else:\n' + indent(b)
                    else:
                        src = 'try:\n' + indent(a) + 'except Exception:\n' + indent(b)
                    name = harness.unique_modname('m16redef', src + style)
                    mods.append(name)
                    pth = os.path.join(d, name + '.py')
                    with open(pth, 'w') as f:
                        f.write(src)
                    res = {an: sorted((e.unique_callname, e.docsrc) for e in c07.collect(pth, style, an)) for an in ('static', 'dynamic')}
                    if res['static'] != res['dynamic']:
                        atoms.append({'sig': 'redef:%s:static-reads-the-branch-that-does-not-run' % case,
                                      'msg': 'style=%s: static %r, dynamic %r' % (style, res['static'], res['dynamic'])})
            except Exception as ex:
                atoms.append({'sig': 'redef:raises:' + type(ex).__name__, 'msg': repr(ex)})
            finally:
                harness.forget_modules(*mods)
        return {'atoms': atoms, 'outcome': 'ok' if not atoms else 'differs', 'case': {'case': case, 'style': style}, 'nontrivial': 1}


def specs(tier):
    if tier == 'thorough':
        return [StaticDynamicSpec('modules<=2', 2, 99), StaticDynamicSpec('modules=3', 3, 3, min_len=3),
                StaticDynamicSpec('blocks<=3', 3, 99, blocks=True), PackageMemberSpec(), RedefinitionSpec()]
    return [StaticDynamicSpec('modules<=2', 2, 4), StaticDynamicSpec('modules=3', 3, 2, min_len=3),
            StaticDynamicSpec('blocks<=2', 2, 99, blocks=True), PackageMemberSpec(), RedefinitionSpec()]
