"""
Independent reference for the documented got/want relation (C05, C06; reused by the C02/C03 oracles).
Scanner style: no regular expression and no code is shared with xdoctest.checker.
"""
ESC = '\x1b'
def strip_ansi(s):
    """removes colour / control sequences: the introducer is ESC [ or the single 8-bit character CSI (0x9b)"""
    out = []; i = 0; n = len(s)
    while i < n:
        j = None
        if s[i] == ESC and i + 1 < n and s[i+1] == '[':
            j = i + 2
        elif s[i] == '\x9b':
            j = i + 1
        if j is not None:
            while j < n and '0' <= s[j] <= '?': j += 1
            while j < n and ' ' <= s[j] <= '/': j += 1
            if j < n and '@' <= s[j] <= '~':
                i = j + 1; continue
        out.append(s[i]); i += 1
    return ''.join(out)
def isword(c): return c.isalnum() or c == '_'
def strip_prefixes(s, letters, overlap=False):
    """remove a prefix letter (u/U or b/B) that is followed by an optional r/R and a quote and preceded by a
    non-word character or the start of the text.

    Two readings of "string-prefix letter" exist for texts such as  u'u'  whose *content* starts with a prefix
    letter directly followed by the closing quote:
      overlap=False (default)  a quote that was just recognised as the opening quote of a prefixed literal is
                               not at the same time the word boundary in front of the next candidate (left to
                               right, non-overlapping): u'u' -> 'u'
      overlap=True             every candidate is judged on its own: u'u' -> ''
    The property text does not choose between them; `matches3` reports the pairs on which they differ."""
    out = []; i = 0; n = len(s)
    blocked = -1          # index of a quote consumed as the opening quote of the previous prefixed literal
    while i < n:
        c = s[i]
        if c in letters and (i == 0 or not isword(s[i-1])) and (overlap or i - 1 != blocked or i == 0):
            j = i + 1
            if j < n and s[j] in 'rR': j += 1
            if j < n and s[j] in '\'"':
                # drop the letter c only; the rest up to and including the quote is copied
                out.extend(s[i+1:j+1])
                blocked = j
                i = j + 1; continue
        out.append(c); i += 1
    return ''.join(out)
def rm_blankline(w):
    lines = w.split('\n')
    return '\n'.join('' if l == '<BLANKLINE>' else l for l in lines)
def strip_trailing(s):
    lines = s.split('\n')
    lines = [l.rstrip(' \t') for l in lines]
    return '\n'.join(lines).rstrip()
def pieces(want):
    ps = []; cur = []; i = 0; n = len(want)
    while i < n:
        if want.startswith('...', i):
            ps.append(''.join(cur)); cur = []; i += 3
        else:
            cur.append(want[i]); i += 1
    ps.append(''.join(cur))
    # whitespace adjacent to markers is absorbed
    res = []
    for k, p in enumerate(ps):
        if k > 0: p = p.lstrip()
        if k < len(ps) - 1: p = p.rstrip()
        res.append(p)
    return res
def ellipsis_ref(got, want):
    if '...' not in want: return got == want
    ps = pieces(want)
    first, last, mid = ps[0], ps[-1], ps[1:-1]
    if not got.startswith(first): return False
    if not got.endswith(last): return False
    lo = len(first); hi = len(got) - len(last)
    if lo > hi: return False
    def rec(pos, k):
        if k == len(mid): return True
        p = mid[k]
        start = pos
        while True:
            j = got.find(p, start, hi)
            if j < 0 or j + len(p) > hi: return False
            if rec(j + len(p), k + 1): return True
            start = j + 1
            if start > hi: return False
    return rec(lo, 0)
def base(g, w, fl):
    if g == w: return True
    if fl['ELLIPSIS'] and ellipsis_ref(g, w): return True
    return False
def matches(got, want, fl, overlap=False):
    if not want: return True
    if got == want: return True
    g, w = strip_ansi(got), strip_ansi(want)
    g, w = strip_prefixes(g, 'uU', overlap), strip_prefixes(w, 'uU', overlap)
    g, w = strip_prefixes(g, 'bB', overlap), strip_prefixes(w, 'bB', overlap)
    if not fl['DONT_ACCEPT_BLANKLINE']:
        w = rm_blankline(w)
    g, w = strip_trailing(g), strip_trailing(w)
    ws = fl['NORMALIZE_WHITESPACE'] or fl['IGNORE_WHITESPACE']
    if ws:
        g, w = ' '.join(g.split()), ' '.join(w.split())
    if fl['IGNORE_WHITESPACE']:
        g, w = ''.join(g.split()), ''.join(w.split())
    if base(g, w, fl): return True
    if fl['NORMALIZE_REPR']:
        def inner(t):
            # what is left once the surrounding quotes are ignored is subject to the same whitespace
            # normalisation as the text as a whole (otherwise switching NORMALIZE_WHITESPACE on could turn
            # a match into a mismatch: got ' a', want "' a'")
            t = t[1:-1]
            return t.strip() if ws else t
        for q in '"\'':
            if len(g) >= 2 and g[0] == q and g[-1] == q and base(inner(g), w, fl): return True
        for q in '"\'':
            # the want stays the pattern when it is the want whose quotes are ignored (finding F51)
            if len(w) >= 2 and w[0] == q and w[-1] == q and base(g, inner(w), fl): return True
    return False
def matches3(got, want, fl):
    """True / False, or None where the two readings of "string-prefix letter" disagree (not judged)"""
    a = matches(got, want, fl, False)
    b = matches(got, want, fl, True)
    return a if a == b else None
