"""Doctests with by-construction outcomes (shared by C10 and C15)."""

KINDS = ['pass', 'failout', 'failexc', 'allskip', 'partskip', 'expexc', 'disabled', 'comment',
         'failcompile', 'faildirective', 'warnfail', 'warnpass', 'expexconly',
         'latecomment', 'latecommentfail', 'disabledlower', 'bracketskip', 'reqskip', 'skipthenrun', 'pytestskip']
EXTRA_KINDS = ['ell', 'igws']      # outcome depends on a default directive (C15)

# TR is replaced by a statement appending the doctest's name to a trace file
BODY = {
    'pass': ['TR', '>>> print("a")', 'a'],
    'failout': ['TR', '>>> print("a")', 'b'],
    'failexc': ['TR', '>>> 1/0'],
    'allskip': ['>>> # xdoctest: +SKIP', 'TR', '>>> 1/0'],
    'partskip': ['TR', '>>> print("a")', 'a', '>>> 1/0  # xdoctest: +SKIP'],
    'expexc': ['TR', '>>> 1/0', 'Traceback (most recent call last):', 'ZeroDivisionError: division by zero'],
    'disabled': ['>>> # DISABLE_DOCTEST', 'TR', '>>> 1/0'],
    'comment': ['>>> # nothing here'],
    # fail before anything has been executed or logged (found when the first part is compiled / its directive parsed)
    'failcompile': ['>>> return 5'],
    'faildirective': ['>>> x = 1  # xdoctest: +REQUIRES(bogus)'],
    # every executed part ends in an accepted exception (nothing executes "normally")
    'expexconly': ['>>> 1/0', 'Traceback (most recent call last):', 'ZeroDivisionError: division by zero'],
    # a comment that looks like a force-disable marker, but not on the first line: an ordinary doctest
    'latecomment': ['TR', '>>> print("a")', 'a', '>>> # Script authors print the value', '>>> # disable nothing'],
    'latecommentfail': ['TR', '>>> # slow_doctest is not meant here', '>>> # Failing is what this one does', '>>> 1/0'],
    # the force-disable marker written in lower case
    'disabledlower': ['>>> # disable_doctest', 'TR', '>>> 1/0'],
    # a closed +SKIP ... -SKIP bracket around the only statement: nothing runs
    'bracketskip': ['>>> # xdoctest: +SKIP', 'TR', '>>> 1/0', '>>> # xdoctest: -SKIP'],
    # everything behind an unmet *block* requirement that is never lifted
    'reqskip': ['>>> # xdoctest: +REQUIRES(module:xv_no_such_module_10)', 'TR', '>>> 1/0'],
    # first line a block +SKIP, switched off again later: the rest runs
    'skipthenrun': ['>>> # xdoctest: +SKIP', '>>> 1/0', '>>> # xdoctest: -SKIP', 'TR', '>>> print("a")', 'a'],
    # the doctest ends itself with pytest.skip(): a graceful early exit, not a failure
    'pytestskip': ['TR', '>>> import pytest', '>>> pytest.skip("enough")', '>>> 1/0'],
    # a recorded run-time warning together with a failure / a pass
    'warnfail': ['TR', '>>> import warnings', '>>> warnings.warn("w-fail")', '>>> 1/0'],
    'warnpass': ['TR', '>>> import warnings', '>>> warnings.warn("w-pass")', '>>> print("a")', 'a'],
    'ell': ['TR', '>>> print("abcdef")', 'ab...f'],
    'igws': ['TR', '>>> print("a b")', 'ab'],
}
DISABLED = ('disabled', 'disabledlower')
RUNS_TR = {'pass', 'failout', 'failexc', 'partskip', 'expexc', 'ell', 'igws', 'warnfail', 'warnpass', 'latecomment',
           'latecommentfail', 'skipthenrun', 'pytestskip'}


NAMES = None       # a spec may install another naming scheme for the duration of one case
COMMAND_NAMES = ['all', 'list', 'dump', 'f']


def fname(j):
    """names are suffixes of each other on purpose (f, xf, xxf, ...): naming one doctest must select exactly it"""
    if NAMES:
        return NAMES[j]
    return 'x' * j + 'f'


def outcome(kind, opt=None, named=False):
    """expected outcome: passed / failed / skipped / disabled(absent natively, skipped in pytest)"""
    if kind in DISABLED and not named:
        return 'disabled'
    if kind == 'faildirective':
        # a malformed directive is diagnosed when the directives of the part are parsed, before SKIP is
        # consulted: it fails under every default option (C09 asks for exactly that failure)
        return 'failed'
    if opt == '+SKIP':
        # the default option behaves like a leading block directive: a doctest that switches SKIP off itself runs
        return 'passed' if kind == 'skipthenrun' else 'skipped'
    if kind in ('allskip', 'comment', 'bracketskip', 'reqskip'):
        return 'skipped'
    if kind in ('failout', 'failexc', 'disabled', 'disabledlower', 'failcompile', 'faildirective', 'warnfail',
                'latecommentfail'):
        return 'failed'
    if kind == 'ell':
        return 'failed' if opt == '-ELLIPSIS' else 'passed'
    if kind == 'igws':
        return 'passed' if opt == '+IGNORE_WHITESPACE' else 'failed'
    return 'passed'


def traces(kind, opt=None, named=False):
    """does the doctest execute its trace statement"""
    if opt == '+SKIP':
        return kind == 'skipthenrun'
    if kind in DISABLED:
        return named
    return kind in RUNS_TR


def module_source(kinds, tracefile):
    src = []
    for j, kd in enumerate(kinds):
        name = fname(j)
        tr = ">>> _ = open(%r, 'a').write('%s;')" % (tracefile, name)
        body = [tr if l == 'TR' else l for l in BODY[kd]]
        src.append('def %s():\n    """\n    Example:\n%s\n    """\n' % (name, '\n'.join('        ' + l for l in body)))
    return '\n'.join(src)


CLASSIC = ('failout', 'failexc', 'allskip', 'partskip', 'expexc', 'disabled', 'comment')


def kind_cost(kind):
    return 0 if kind == 'pass' else (1 if kind in CLASSIC else 2)
