"""
The doctest *program grammar* shared by C01, C18, C19 (and, restricted, others) - DESIGN.md 2.7.

A program is a sequence of items (template, prompt style, want?, separator).  Every template calls the
tracer (T/V/P/D of models.harness.PRE) so that execution is observable per statement.  `ref_exec`
executes the de-prompted program the ordinary way (compile/exec statement by statement in one fresh
namespace) and is the oracle for what must happen.
"""
import io
import ast
import asyncio
import contextlib

from models.harness import PRE

CO_COROUTINE = 0x80

# name -> code lines with {k}; ordered simplest first
TEMPLATES = [
    ('assign',    ['v{k} = T({k}, {k})']),
    ('exprnone',  ['T({k})']),
    ('value',     ['V({k})']),
    ('print',     ['P({k})']),
    ('printind',  ['PI({k})']),
    # writes through a reference to sys.stdout taken by the *first* such statement of the program
    ('useout',    ["import sys; emit = globals().get('emit'); emit = emit if callable(emit) else sys.stdout.write; "
                   "x{k} = emit('u{k}\\n'); T({k})"]),                  # output whose every line starts with blanks
    # statements carrying inline directives that do not change what runs (two in a row / one alone)
    ('inlinedir', ['T({k})  # xdoctest: +ELLIPSIS']),
    ('inlinedir2', ['T({k})  # xdoctest: +ELLIPSIS', 'T({k}.5)  # xdoctest: -NORMALIZE_REPR', 'T({k}.7)']),
    # output / string content that looks like a google section header
    ('printtag',  ["print('Returns:'); T({k})"]),
    ('mstringtag', ["g{k} = T({k}, '''", "Args:", "    ''')"]),
    # a comment, a blank line, then code - all in one part
    ('blankprompt', ['# remark {k}', '', 'b{k} = T({k}, 3)']),
    ('aug',       ['w = 0', 'w += T({k}, 1)']),
    ('import',    ['import os as o{k}; T({k})']),
    ('tcomment',  ['T({k})  # trailing comment']),
    ('comment',   ['# only a comment {k}']),
    ('semi',      ['T({k}); T({k}.5)']),
    ('bslash',    ['v{k} = T({k}, 1) + \\', '    2']),
    ('bracket',   ['v{k} = [T({k}, 1),', '    2]']),
    ('callml',    ['P({k},', '  1)']),
    ('valueml',   ['max(V({k}),', '    1)']),
    ('mstring',   ["s{k} = T({k}, '''", "    text{k}", "    ''')"]),
    # a line of a string literal that ends in blanks (significant: they are part of the value)
    ('mstrtrail', ["t{k} = T({k}, '''ab  ", "cd  ", "ef''')"]),
    # characters str.splitlines() breaks lines at, inside a string literal of a one-line statement (form feed, U+2028)
    ('sepstring', ["z{k} = T({k}, 'a\x0cb\u2028c')"]),
    # a blank-only line inside a string literal: its blanks are part of the value
    ('mstrblank', ["b{k} = T({k}, '''x", "      ", "y''')"]),
    ('for',       ['for i{k} in range(2):', '    P({k})']),
    ('while',     ['n{k} = 0', 'while n{k} < 1:', '    n{k} += 1; T({k})']),
    ('ifelse',    ['if T({k}) is None:', '    P({k})', 'else:', '    P(-{k})']),
    ('try',       ['try:', '    T({k}); 1/0', 'except ZeroDivisionError:', '    P({k})']),
    ('with',      ['import contextlib', 'with contextlib.nullcontext():', '    T({k})']),
    ('def',       ['def f{k}(a=T({k})):', '    return a', 'T(f{k}(({k}, 1)))']),
    ('class',     ['class K{k}:', '    a = T({k})', '', '    def m(self):', '        return 1']),
    ('deco',      ['@D({k})', 'def g{k}():', '    pass']),
    ('decoclass', ['@D({k})', 'class Q{k}:', '    pass']),
    # a comment line in column 0 *inside* a statement: between a decorator and its def, between an if suite and its else
    ('decocomment', ['@D({k})', '# between the decorator and the def', 'def gc{k}():', '    pass']),
    ('elsecomment', ['if T({k}) is None:', '    P({k})', '# otherwise', 'else:', '    P(-{k})']),
    ('lambda',    ['l{k} = lambda: T({k})', 'l{k}()']),
    ('del',       ['d{k} = T({k})', 'del d{k}']),
    ('await',     ['import asyncio', 'async def c{k}():', '    return T({k}, 5)', 'a{k} = await c{k}()']),
    ('awaitexpr', ['async def e{k}():', '    P({k})', 'await e{k}()']),
    ('awaitval',  ['async def q{k}():', '    return V({k})', 'await q{k}()']),
    ('asyncwith', ['import contextlib', '@contextlib.asynccontextmanager', 'async def m{k}():',
                   '    T({k}); yield', 'async with m{k}():', '    P({k})']),
    ('asyncfor',  ['async def y{k}():', '    yield T({k}, 1)', 'async for x{k} in y{k}():', '    P({k})']),
    # prints, then raises: always written with its traceback want (an expected exception)
    ('raise',     ['PX({k})']),
]
TEMPLATE = dict(TEMPLATES)
STRING_TEMPLATES = {'mstring', 'mstringtag', 'mstrblank'}


class _NV(object):
    def __repr__(self):
        return '<NOVAL>'


NOVAL = _NV()


def instantiate(name, k):
    return [l.replace('{k}', str(k)) for l in TEMPLATE[name]]


def stmts_of(code_lines):
    """split code lines into top-level statements (list of line lists); decorators belong to
    their definition; a comment-only block is one pseudo statement"""
    src = '\n'.join(code_lines)
    tree = ast.parse(src)
    starts = []
    for node in tree.body:
        ln = node.lineno
        if getattr(node, 'decorator_list', None):
            ln = min(ln, node.decorator_list[0].lineno)
        starts.append(ln - 1)
    if not starts:
        return [code_lines]
    starts = sorted(set(starts))
    starts[0] = 0            # comment / blank lines in front of the first statement belong to it
    out = []
    for a, b in zip(starts, starts[1:] + [len(code_lines)]):
        out.append(code_lines[a:b])
    return out


def is_compound(stmt_lines):
    try:
        tree = ast.parse('\n'.join(stmt_lines))
    except SyntaxError:
        return False
    if not tree.body:
        return False
    return isinstance(tree.body[0], (ast.For, ast.While, ast.If, ast.Try, ast.With, ast.FunctionDef,
                                     ast.ClassDef, ast.AsyncFunctionDef, ast.AsyncWith, ast.AsyncFor))


def render_stmt(lines, style):
    if style == 'chev':
        return ['>>> ' + l if l else '>>>' for l in lines]
    if style == 'chevb':     # a blank line of the statement written as a prompt followed only by blanks
        return ['>>> ' + l if l else '>>>     ' for l in lines]
    if style in ('dots', 'dotst'):
        out = ['>>> ' + lines[0]] + ['... ' + l if l else '...' for l in lines[1:]]
        if style == 'dotst':
            out.append('...')
        return out
    if style == 'raw':     # unprefixed inner lines of a triple quoted string, aligned with the code column
        return ['>>> ' + lines[0]] + ['    ' + l for l in lines[1:]]
    raise KeyError(style)


def styles_for(name):
    if name == 'blankprompt':
        return ['chev', 'chevb']       # '...' never starts a statement
    st = stmts_of(instantiate(name, 1))
    multi = any(len(s) > 1 for s in st)
    if not multi:
        return ['chev']
    out = ['chev', 'dots']
    if any('' in s for s in st):
        out.append('chevb')
    if any(len(s) > 1 and is_compound(s) for s in st):
        out.append('dotst')
    if name in STRING_TEMPLATES:
        out.append('raw')
    return out


def stmt_style(name, stmt_lines, style):
    """the prompt style actually applied to one statement of an item"""
    if len(stmt_lines) == 1:
        return 'chev'
    if style == 'raw' and name not in STRING_TEMPLATES:
        return 'dots'
    if style == 'dotst' and not is_compound(stmt_lines):
        return 'dots'
    return style


def ref_exec(stmts, extra_pre=''):
    """execute statement by statement in one fresh namespace.
    Returns (namespace, [(stdout, value)]) - value is NOVAL unless the statement is a single expression."""
    ns = {'TRACE': []}
    exec(PRE + extra_pre, ns)
    outs = []
    raised = ns['__raised__'] = {}
    # one stream for the whole program (a program may keep a reference to sys.stdout and write through it
    # later); the output of a statement is what was appended while it ran
    buf = io.StringIO()
    with contextlib.redirect_stdout(buf):
        for si, stmt_lines in enumerate(stmts):
            src = '\n'.join(stmt_lines) + '\n'
            pos = len(buf.getvalue())
            tree = ast.parse(src)
            val = NOVAL
            try:
                if len(tree.body) == 1 and isinstance(tree.body[0], ast.Expr):
                    code = compile(src.strip(), '<ref>', 'eval', flags=ast.PyCF_ALLOW_TOP_LEVEL_AWAIT)
                    r = eval(code, ns)
                    if code.co_flags & CO_COROUTINE:
                        r = asyncio.run(r)
                    val = r
                else:
                    code = compile(src, '<ref>', 'exec', flags=ast.PyCF_ALLOW_TOP_LEVEL_AWAIT)
                    r = eval(code, ns)
                    if code.co_flags & CO_COROUTINE:
                        asyncio.run(r)
            except Exception as ex:
                import traceback
                raised[si] = traceback.format_exception_only(type(ex), ex)[-1]
                val = NOVAL
            outs.append((buf.getvalue()[pos:], val))
    return ns, outs


def _flags():
    fl = {}
    for name, _ in TEMPLATES:
        st = stmts_of(instantiate(name, 1))
        ns, outs = ref_exec(st)
        prints = any(o for o, v in outs)
        lastval = outs[-1][1]
        fl[name] = {
            'prints': prints,
            'value': lastval is not NOVAL and lastval is not None,
            'nocode': not ast.parse('\n'.join(instantiate(name, 1))).body,
            'nstmts': len(st),
            'raises': bool(ns['__raised__']),
        }
    return fl


FLAGS = _flags()

SEPS = ('none', 'blank', 'prose')
FRAMES = [(0, False), (4, False), (8, False), ('tab', False), (0, True), (4, True), (4, 'outdent')]


SHIFT_SEPS = ('in', 'out')      # directly after a want: the following lines are indented 4 more / 4 less


def all_items(shift=False):
    out = []
    for name, _ in TEMPLATES:
        for style in styles_for(name):
            for want in (False, True):
                for sep in SEPS + (SHIFT_SEPS if shift and want else ()):
                    out.append((name, style, want, sep))
    return out


def item_cost(it):
    name, style, want, sep = it
    return int(name != 'assign') + int(style != 'chev') + int(bool(want)) + int(sep != 'none')


def frame_cost(fr):
    return int(fr[0] != 0) + int(bool(fr[1]))


# ---- abstract model used by the explorer (parent side) ----
def model_init():
    return (False, 0, 0)       # (output pending since the last want, items so far, extra indentation / 4)


def item_enabled(S, it):
    pending, n, off = S
    name, style, want, sep = it
    f = FLAGS[name]
    if sep == 'out' and off <= 0:
        return False
    if f['raises']:
        return bool(want)       # a raising statement is only well formed with its traceback want
    if not want:
        return True
    if f['value']:
        # a want under a non-None value expression is its repr - only when no output is pending
        # (otherwise the text belongs to the print-and-echo family judged by C20)
        return not pending and not f['prints']
    return pending or f['prints']


def model_step(S, it):
    pending, n, off = S
    name, style, want, sep = it
    pending = (pending or FLAGS[name]['prints']) and not want
    off += {'in': 1, 'out': -1}.get(sep, 0)
    return (pending, n + 1, off)


# ---- concretisation ----
def build(frame, items, extra_pre=''):
    """returns dict(text, stmts, ns, outs, wants, anycode) - executes the reference"""
    per_item = []
    allstmts = []
    for k, (name, style, want, sep) in enumerate(items, 1):
        st = stmts_of(instantiate(name, k))
        per_item.append(st)
        allstmts += st
    ns, outs = ref_exec(allstmts, extra_pre)
    doc = []
    pending = ''
    oi = 0
    off = 0

    def emit(ls):
        doc.extend([(' ' * off + l) if l else l for l in ls])
    echo_ok = []       # indexes of statements whose value may legitimately be echoed into stdout
    wants = []         # (index of last statement before the want, want text)
    src_lines = []     # (docstring line index) of every source line
    for (name, style, want, sep), st in zip(items, per_item):
        lastval = NOVAL
        for s in st:
            emit(render_stmt(s, stmt_style(name, s, style)))
            out, val = outs[oi]
            oi += 1
            pending += out
            lastval = val
        if want:
            if (oi - 1) in ns['__raised__']:
                w = 'Traceback (most recent call last):\n' + ns['__raised__'][oi - 1]
            elif lastval is not NOVAL and lastval is not None and not pending:
                w = repr(lastval) + '\n'
                echo_ok.append(oi - 1)
            elif pending:
                w = pending
            else:
                raise ValueError('want not enabled here: %r' % (items,))
            wants.append((oi - 1, w))
            emit(w.split('\n')[:-1])
            pending = ''
        if sep == 'blank':
            doc.append('')
        elif sep == 'prose':
            emit(['', 'Some prose.', ''])
        elif sep == 'in':
            off += 4
        elif sep == 'out':
            off -= 4
    indent, lead = frame
    pad = '\t' if indent == 'tab' else ' ' * indent
    lines = [pad + l if l else l for l in doc]
    if lead == 'outdent':
        # prose in column 0 above a doctest that sits 4 columns deeper: after the common de-indentation the prompts
        # are still indented
        lines = ['Leading prose.', ''] + lines
    elif lead:
        lines = [pad + 'Leading prose.', ''] + lines
    anycode = any(not FLAGS[it[0]]['nocode'] for it in items)
    return {'text': '\n'.join(lines), 'stmts': allstmts, 'ns': ns, 'outs': outs, 'echo_ok': echo_ok,
            'wants': wants, 'anycode': anycode, 'doc_lines': doc}
