"""
Module source generator for C07 / C16 (DESIGN.md 2.7 `layouts`).

A module is a sequence of definition events processed by a scope automaton (module scope / class scope).
Every doctest prints a unique token, so the *expected inventory* {(unique_callname, tokens)} per style is
known by construction.
"""
import re

TOP_KINDS = ['def', 'class', 'moddoc', 'adef', 'decodef', 'def_nested_def', 'def_nested_class',
             'adef_nested_def', 'if_def', 'try_def', 'main_def', 'dupdef', 'imported', 'lambda', 'wrapsdef', 'decoadef']
MEMBER_KINDS = ['method', 'amethod', 'static', 'classm', 'prop', 'decomethod', 'nested_class',
                'method_nested_def']
# definitions inside module-level control flow that does execute on import, guards that merely mention
# __name__, and decorators that come from other modules - explored by their own spec (smaller layout set)
BLOCK_TOP_KINDS = ['main_swapped_def', 'main_elif_def', 'nfkc_decodef', 'contline_decodef', 'twin_classes', 'main_else_def', 'ifnot_main_def', 'ifne_main_def', 'ifor_main_def', 'else_def', 'except_def',
                   'finally_def', 'for_def', 'with_def', 'while_def', 'cmdef', 'lrudef', 'if_class', 'subclass']
BLOCK_MEMBER_KINDS = ['cmmethod', 'cachedprop', 'if_method', 'prop_deco', 'private_method']
LAYOUTS = ['freeform1', 'none', 'freeform2', 'google1', 'google2', 'doctestblock', 'google_after_args', 'mixed',
           'google_space', 'google_kinds', 'free_after_word', 'google_blank2', 'google_bad_later', 'google_bad_first', 'free_after_ignored', 'free_ignored_between']
STYLES = ['auto', 'google', 'freeform']
TOKEN_RE = re.compile(r'tok_\d+')

HEADER = [
    'import functools',
    'import contextlib',
    '',
    '',
    'def _deco(f):',
    '    return f',
    '',
    '',
    'def _wrap(f):',
    '    @functools.wraps(f)',
    '    def wrapper(*a, **k):',
    '        return f(*a, **k)',
    '    return wrapper',
    '',
]


class TokenGen(object):
    def __init__(self):
        self.n = 0

    def __call__(self):
        self.n += 1
        return 'tok_%d' % self.n


def doc_body(layout, tok):
    """returns (lines of the docstring body (unindented), groups) where groups is a list of
    ('free' | 'google', [tokens]) in textual order"""
    def ex(t):
        return ['>>> print(%r)' % t, t]
    if layout == 'none':
        return None, []
    if layout == 'freeform1':
        t = tok()
        return ['Summary line.', ''] + ex(t), [('free', [t])]
    if layout == 'freeform2':
        t1, t2 = tok(), tok()
        return ['Summary line.', ''] + ex(t1) + ['', 'Prose between the groups.', ''] + ex(t2), [('free', [t1]), ('free', [t2])]
    if layout == 'google1':
        t = tok()
        return ['Summary line.', '', 'Example:'] + ['    ' + l for l in ex(t)], [('google', [t])]
    if layout == 'google2':
        t1, t2 = tok(), tok()
        return (['Summary line.', '', 'Example:'] + ['    ' + l for l in ex(t1)] +
                ['', 'Example:'] + ['    ' + l for l in ex(t2)]), [('google', [t1]), ('google', [t2])]
    if layout == 'doctestblock':
        t = tok()
        return ['Summary line.', '', 'Doctest:'] + ['    ' + l for l in ex(t)], [('google', [t])]
    if layout == 'google_after_args':
        t = tok()
        return (['Summary line.', '', 'Args:', '    a (int): something', '', 'Returns:', '    int: zero', '',
                 'Example:'] + ['    ' + l for l in ex(t)]), [('google', [t])]
    if layout == 'google_space':
        # block headers written with a blank before the colon / with a double colon
        t1, t2 = tok(), tok()
        return (['Summary line.', '', 'Example :'] + ['    ' + l for l in ex(t1)] +
                ['', 'Example::'] + ['    ' + l for l in ex(t2)]), [('google', [t1]), ('google', [t2])]
    if layout == 'google_kinds':
        # blocks of two different kinds in one docstring: numbered consecutively
        t1, t2, t3 = tok(), tok(), tok()
        return (['Summary line.', '', 'Example:'] + ['    ' + l for l in ex(t1)] +
                ['', 'Doctest:'] + ['    ' + l for l in ex(t2)] +
                ['', 'Example:'] + ['    ' + l for l in ex(t3)]), [('google', [t1]), ('google', [t2]), ('google', [t3])]
    if layout == 'free_after_word':
        # prose that merely ends in a word like "subscript" / "ignore" directly above the examples
        t1, t2 = tok(), tok()
        return (['Summary line.', '', 'The index is written as a subscript'] + ex(t1) +
                ['', 'Errors of this kind we ignore'] + ex(t2)), [('free', [t1]), ('free', [t2])]
    if layout == 'google_blank2':
        # no summary: two blank lines, then the first tag
        t = tok()
        return (['', '', 'Example:'] + ['    ' + l for l in ex(t)]), [('google', [t])]
    if layout == 'google_bad_later':
        # a well-formed block, then a block that cannot be parsed (reported by a warning), then another good one
        t1, t2 = tok(), tok()
        return (['Summary line.', '', 'Example:'] + ['    ' + l for l in ex(t1)] +
                ['', 'Example:', '    >>> x = (', '    >>> y = 1', '', 'Example:'] + ['    ' + l for l in ex(t2)]), [('google', [t1]), ('bad', []), ('google', [t2])]
    if layout == 'google_bad_first':
        t1 = tok()
        return (['Summary line.', '', 'Example:', '    >>> x = (', '    >>> y = 1', '', 'Example:'] + ['    ' + l for l in ex(t1)]), [('bad', []), ('google', [t1])]
    if layout == 'free_after_ignored':
        # a block under a do-not-run header, prose, then the runnable doctest (no google block: auto falls back on freeform)
        t = tok()
        return (['Summary line.', '', 'Script:', '    >>> ig = 1/0', '    >>> ig2 = 2', '', 'Now the real thing.', ''] + ex(t)), [('free', [t])]
    if layout == 'free_ignored_between':
        t1, t2 = tok(), tok()
        return (['Summary line.', ''] + ex(t1) + ['', 'Ignore:', '    >>> ig = 1/0', '', 'Back to the tests.', ''] + ex(t2)), [('free', [t1]), ('free', [t2])]
    if layout == 'mixed':
        t1, t2 = tok(), tok()
        return (['Summary line.', ''] + ex(t1) + ['', 'Example:'] + ['    ' + l for l in ex(t2)]), [('free', [t1]), ('google', [t2])]
    raise KeyError(layout)


def expected_for(groups, style):
    """list of token tuples, one per expected doctest, in order"""
    if not groups:
        return []
    kinds = [k for k, t in groups]
    if 'bad' in kinds:
        # a block that cannot be parsed ends the extraction of its docstring with a warning: the blocks in front of it
        # are kept (google, and auto which uses the google blocks when there are any), the docstring as a whole (freeform)
        # yields nothing
        if style == 'freeform':
            return []
        return [tuple(t) for k, t in groups[:kinds.index('bad')] if k == 'google']
    blocks = [tuple(t) for k, t in groups if k == 'google']
    alltoks = tuple(t for k, ts in groups for t in ts)
    if style == 'freeform':
        return [alltoks]
    if style == 'google':
        return blocks
    if style == 'auto':
        return blocks if blocks else [alltoks]
    raise KeyError(style)


class Builder(object):
    def __init__(self):
        self.lines = []
        self.tok = TokenGen()
        self.inventory = []      # (callname, groups)
        self.cls = None
        self.noexec = []         # callnames whose definition never executes on import

    def emit(self, line):
        self.lines.append(line)
        return len(self.lines)

    def docstring(self, indent, layout):
        body, groups = doc_body(layout, self.tok)
        pad = ' ' * indent
        if body is not None:
            self.emit(pad + '"""')
            for l in body:
                self.emit((pad + l) if l else '')
            self.emit(pad + '"""')
        return groups

    def func(self, indent, name, layout, args='', prefix='def', decorators=(), collect=True, qual=None,
             nested=None):
        pad = ' ' * indent
        for d in decorators:
            self.emit(pad + '@' + d)
        self.emit('%s%s %s(%s):' % (pad, prefix, name, args))
        groups = self.docstring(indent + 4, layout)
        if nested == 'def':
            self.func(indent + 4, 'inner_' + name, 'freeform1', collect=False)
        elif nested == 'class':
            self.emit(pad + '    class Inner_%s:' % name)
            self.docstring(indent + 8, 'freeform1')
            self.emit(pad + '        z = 0')
        self.emit(pad + '    return 0')
        self.emit('')
        if collect:
            self.inventory.append((qual or name, groups))
        return groups

    def add(self, i, ev):
        kind, layout = ev
        if kind in TOP_KINDS or kind in BLOCK_TOP_KINDS:
            self.cls = None
        if kind == 'moddoc':
            # only valid as the very first event: emitted before the header
            raise AssertionError('moddoc is handled by build()')
        n = str(i)
        if kind == 'def':
            self.func(0, 'f' + n, layout)
        elif kind == 'adef':
            self.func(0, 'af' + n, layout, prefix='async def')
        elif kind == 'decodef':
            self.func(0, 'df' + n, layout, decorators=('_deco',))
        elif kind == 'decoadef':
            self.func(0, 'daf' + n, layout, prefix='async def', decorators=('_deco', '_deco'))
        elif kind == 'wrapsdef':
            self.func(0, 'wf' + n, layout, decorators=('_wrap',))
        elif kind == 'def_nested_def':
            self.func(0, 'fn' + n, layout, nested='def')
        elif kind == 'def_nested_class':
            self.func(0, 'fc' + n, layout, nested='class')
        elif kind == 'adef_nested_def':
            self.func(0, 'afn' + n, layout, prefix='async def', nested='def')
        elif kind == 'if_def':
            self.emit('if True:')
            self.func(4, 'g' + n, layout)
        elif kind == 'try_def':
            self.emit('try:')
            self.func(4, 't' + n, layout)
            self.emit('except Exception:')
            self.emit('    pass')
            self.emit('')
        elif kind == 'main_def':
            self.emit("if __name__ == '__main__':")
            self.func(4, 'mn' + n, layout, collect=False)
        elif kind == 'dupdef':
            self.func(0, 'dup' + n, 'freeform1', collect=False)
            self.func(0, 'dup' + n, layout)
        elif kind == 'imported':
            self.emit('from os.path import join as j' + n)
            self.emit('from collections import OrderedDict as OD' + n)
            self.emit('')
        elif kind == 'lambda':
            self.emit('lam%s = lambda: 0' % n)
            self.emit('')
        elif kind == 'main_swapped_def':
            # the guard written with its operands swapped: still code that only runs as a script
            self.emit("if '__main__' == __name__:")
            self.func(4, 'msw' + n, layout, collect=False)
        elif kind == 'main_elif_def':
            # an elif branch of the guard does run on import
            self.emit("if __name__ == '__main__':")
            self.emit('    pass')
            self.emit('elif True:')
            self.func(4, 'mei' + n, layout)
        elif kind == 'main_else_def':
            self.emit("if __name__ == '__main__':")
            self.emit('    pass')
            self.emit('else:')
            self.func(4, 'mel' + n, layout)
        elif kind == 'ifnot_main_def':
            self.emit("if not (__name__ == '__main__'):")
            self.func(4, 'inm' + n, layout)
        elif kind == 'ifne_main_def':
            self.emit("if __name__ != '__main__':")
            self.func(4, 'ine' + n, layout)
        elif kind == 'ifor_main_def':
            self.emit("if __name__ == '__main__' or True:")
            self.func(4, 'ior' + n, layout)
        elif kind == 'else_def':
            self.emit('if False:')
            self.emit('    pass')
            self.emit('else:')
            self.func(4, 'els' + n, layout)
        elif kind == 'except_def':
            self.emit('try:')
            self.emit('    raise KeyError(1)')
            self.emit('except KeyError:')
            self.func(4, 'exc' + n, layout)
        elif kind == 'finally_def':
            self.emit('try:')
            self.emit('    pass')
            self.emit('finally:')
            self.func(4, 'fin' + n, layout)
        elif kind == 'for_def':
            self.emit('for _i in range(1):')
            self.func(4, 'forl' + n, layout)
        elif kind == 'with_def':
            self.emit('with contextlib.suppress(KeyError):')
            self.func(4, 'wit' + n, layout)
        elif kind == 'while_def':
            self.emit('while True:')
            self.func(4, 'whl' + n, layout)
            self.emit('    break')
            self.emit('')
        elif kind == 'nfkc_decodef':
            # a decorated function whose name is written with a character the compiler normalises (MICRO SIGN -> GREEK MU)
            self.func(0, '\u00b5_f' + n, layout, decorators=('_deco',), qual='\u03bc_f' + n)
        elif kind == 'contline_decodef':
            # a decorated function whose name stands on a continuation line of the def statement
            self.emit('@_deco')
            self.emit('def \\')
            self.func(0, 'clf' + n, layout, prefix='   ')
        elif kind == 'cmdef':
            self.func(0, 'cmf' + n, layout, decorators=('contextlib.contextmanager',))
        elif kind == 'lrudef':
            self.func(0, 'lru' + n, layout, decorators=('functools.lru_cache(None)',))
        elif kind == 'if_class':
            name = 'IK' + n
            self.emit('if True:')
            self.emit('    class %s(object):' % name)
            groups = self.docstring(8, layout)
            self.emit('        z = 0')
            self.emit('')
            self.inventory.append((name, groups))
            self.func(8, 'ikm', 'freeform1', args='self', qual=name + '.ikm')
        elif kind == 'twin_classes':
            # two classes with a method of the same name and byte-identical docstrings
            body, groups = doc_body(layout, self.tok)
            for cname in ('TwA' + n, 'TwB' + n):
                self.emit('class %s(object):' % cname)
                self.emit('    z = 0')
                self.emit('')
                self.emit('    def close(self):')
                if body is not None:
                    self.emit('        """')
                    for l in body:
                        self.emit(('        ' + l) if l else '')
                    self.emit('        """')
                self.emit('        return 0')
                self.emit('')
                self.inventory.append((cname + '.close', groups))
        elif kind == 'subclass':
            # a documented base class and an undocumented subclass overriding a documented method without a
            # docstring: nothing may be invented for the subclass
            base = 'B' + n
            self.emit('class %s(object):' % base)
            groups = self.docstring(4, layout)
            self.emit('    z = 0')
            self.emit('')
            self.inventory.append((base, groups))
            self.func(4, 'bm', 'freeform1', args='self', qual=base + '.bm')
            self.emit('class SB%s(%s):' % (n, base))
            self.emit('    def bm(self):')
            self.emit('        return 1')
            self.emit('')
        elif kind == 'class':
            name = 'K' + n
            self.emit('class %s(object):' % name)
            groups = self.docstring(4, layout)
            self.emit('    z = 0')
            self.emit('')
            self.inventory.append((name, groups))
            self.cls = name
        else:
            assert self.cls is not None, ev
            c = self.cls
            if kind == 'method':
                self.func(4, 'm' + n, layout, args='self', qual=c + '.m' + n)
            elif kind == 'amethod':
                self.func(4, 'am' + n, layout, args='self', prefix='async def', qual=c + '.am' + n)
            elif kind == 'static':
                self.func(4, 's' + n, layout, decorators=('staticmethod',), qual=c + '.s' + n)
            elif kind == 'classm':
                self.func(4, 'c' + n, layout, args='cls', decorators=('classmethod',), qual=c + '.c' + n)
            elif kind == 'prop':
                self.func(4, 'p' + n, layout, args='self', decorators=('property',), qual=c + '.p' + n)
                self.func(4, 'p' + n, 'freeform1', args='self, v', decorators=('p%s.setter' % n,), collect=False)
                self.func(4, 'p' + n, 'freeform1', args='self', decorators=('p%s.deleter' % n,), collect=False)
            elif kind == 'decomethod':
                self.func(4, 'd' + n, layout, args='self', decorators=('_deco',), qual=c + '.d' + n)
            elif kind == 'nested_class':
                self.emit('    class N%s(object):' % n)
                self.docstring(8, layout)
                self.emit('        z = 0')
                self.emit('')
                self.func(8, 'nm', 'freeform1', args='self', collect=False)
            elif kind == 'method_nested_def':
                self.func(4, 'mn' + n, layout, args='self', qual=c + '.mn' + n, nested='def')
            elif kind == 'cmmethod':
                self.func(4, 'cmm' + n, layout, args='self', decorators=('contextlib.contextmanager',), qual=c + '.cmm' + n)
            elif kind == 'cachedprop':
                self.func(4, 'cpr' + n, layout, args='self', decorators=('functools.cached_property',), qual=c + '.cpr' + n)
            elif kind == 'prop_deco':
                # setter / deleter carrying a second decorator *above* @<prop>.setter
                self.func(4, 'pd' + n, layout, args='self', decorators=('property',), qual=c + '.pd' + n)
                self.func(4, 'pd' + n, 'freeform1', args='self, v', decorators=('_deco', 'pd%s.setter' % n), collect=False)
                self.func(4, 'pd' + n, 'freeform1', args='self', decorators=('_deco', 'pd%s.deleter' % n), collect=False)
            elif kind == 'private_method':
                # a name-mangled method: the class namespace holds it as _<Class>__pm<n>
                self.func(4, '__pm' + n, layout, args='self', qual=c + '.__pm' + n)
            elif kind == 'if_method':
                self.emit('    if True:')
                self.func(8, 'ifm' + n, layout, args='self', qual=c + '.ifm' + n)
            else:
                raise KeyError(kind)


def build(hist):
    """hist: sequence of (kind, layout).  Returns dict(source, expected{style: sorted [(ident, tokens)]})"""
    b = Builder()
    evs = list(hist)
    if evs and evs[0][0] == 'moddoc':
        groups = b.docstring(0, evs[0][1])
        b.emit('')
        if groups:
            b.inventory.append(('__doc__', groups))
        evs_rest = evs[1:]
        start = 1
    else:
        evs_rest = evs
        start = 0
    for l in HEADER:
        b.emit(l)
    for i, ev in enumerate(evs_rest, start):
        b.add(i, tuple(ev))
    source = '\n'.join(b.lines) + '\n'
    expected = {}
    for style in STYLES:
        inv = []
        for callname, groups in b.inventory:
            for num, toks in enumerate(expected_for(groups, style)):
                inv.append(('%s:%d' % (callname, num), tuple(toks)))
        expected[style] = sorted(inv)
    return {'source': source, 'expected': expected}


def observe_inventory(examples):
    out = []
    for e in examples:
        toks = [m for line in e.docsrc.splitlines() if line.strip().startswith('>>>')
                for m in TOKEN_RE.findall(line)]
        out.append((e.unique_callname, tuple(toks)))
    return sorted(out)
