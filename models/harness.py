"""Shared observation helpers: run a doctest text on the real code with a tracer."""
import io
import os
import sys
import shutil
import hashlib
import contextlib

PRE = '''
def T(k, v=None):
    TRACE.append(k); return v
def V(k):
    TRACE.append(k); return k * 11
def P(k, *a):
    TRACE.append(k); print('p%s' % (k,))
def PI(k):
    TRACE.append(k); print('    i%s' % (k,)); print('      j%s' % (k,))
def PX(k):
    TRACE.append(k); print('p%s' % (k,)); raise ValueError('e%s' % (k,))
def D(k):
    TRACE.append(('D', k))
    def deco(f):
        TRACE.append(('d', k)); return f
    return deco
'''
TRACER_NAMES = ('T', 'V', 'P', 'D', 'PX', 'PI', 'TRACE')


class NS(dict):
    """namespace that remembers its content at the moment the library clears it"""
    snap = None

    def clear(self):
        self.snap = dict(self)
        super().clear()


def new_namespace(extra_pre=''):
    ns = NS()
    ns['TRACE'] = []
    exec(PRE + extra_pre, ns)
    return ns


class Run(object):
    """observation of one DocTest.run"""
    __slots__ = ('summary', 'raised', 'trace', 'stdout', 'logged', 'snap', 'doctest', 'exc_type',
                 'exc', 'stderr')


def verdict_of(summary):
    if summary is None:
        return 'raised'
    if summary.get('passed'):
        return 'passed'
    if summary.get('skipped'):
        return 'skipped'
    if summary.get('failed'):
        return 'failed'
    return 'none'


def run_doctest(text, on_error='return', verbose=0, extra_pre='', config=None, doctest=None, ns=None,
                **kw):
    """Run `text` as a DocTest in native mode with the tracing namespace."""
    from xdoctest.doctest_example import DocTest
    r = Run()
    if doctest is None:
        doctest = DocTest(text, **kw)
        doctest.mode = 'native'
    if config:
        doctest.config.update(config)
    doctest.config['colored'] = False
    if ns is None:
        ns = new_namespace(extra_pre)
    doctest.global_namespace = ns
    r.doctest = doctest
    r.summary = None
    r.raised = None
    err = io.StringIO()
    try:
        with contextlib.redirect_stderr(err):
            r.summary = doctest.run(on_error=on_error, verbose=verbose)
    except BaseException as ex:   # noqa
        if type(ex).__name__ == 'CaseTimeout':
            raise
        r.raised = ex
    r.stderr = err.getvalue()
    src = ns.snap if ns.snap is not None else ns
    r.snap = src
    r.trace = list(src.get('TRACE', [])) if 'TRACE' in src else None
    r.logged = dict(doctest.logged_stdout)
    r.stdout = ''.join(v for v in doctest.logged_stdout.values() if v)
    ei = r.summary.get('exc_info') if r.summary else None
    r.exc = ei[1] if ei else None
    r.exc_type = type(ei[1]).__name__ if ei else None
    return r


# ---- scratch space -------------------------------------------------------------------------
def scratch_root():
    base = '/dev/shm' if os.path.isdir('/dev/shm') and os.access('/dev/shm', os.W_OK) else (
        os.environ.get('TMPDIR') or '/var/tmp')
    d = os.path.join(base, 'xmc-%d' % os.getpid())
    os.makedirs(d, exist_ok=True)
    return d


_SCRATCH_COUNTER = [0]


@contextlib.contextmanager
def scratch_dir(tag='case'):
    # a fresh absolute path for every case of a worker: anything the library under test memoises per path
    # (a hypothetical cache) then cannot carry over from one case to the next, so that what a worker observes
    # for a case is what a fresh replay of that case observes
    root = scratch_root()
    _SCRATCH_COUNTER[0] += 1
    d = os.path.join(root, '%s-%d' % (tag, _SCRATCH_COUNTER[0]))
    if os.path.exists(d):
        shutil.rmtree(d, ignore_errors=True)
    os.makedirs(d)
    try:
        yield d
    finally:
        shutil.rmtree(d, ignore_errors=True)
        try:
            os.rmdir(root)
        except OSError:
            pass


def unique_modname(prefix, content):
    return '%s_%s' % (prefix, hashlib.sha1(content.encode('utf8', 'replace')).hexdigest()[:12])


def forget_modules(*names):
    import importlib
    for n in names:
        for k in list(sys.modules):
            if k == n or k.startswith(n + '.'):
                del sys.modules[k]
    importlib.invalidate_caches()


@contextlib.contextmanager
def fresh_process_warning_filters():
    """Warning filters as a freshly started CPython has them (no -W, no PYTHONWARNINGS): what a real
    `python -m xdoctest` / `pytest` process sees.  An outer 'ignore' filter would stop the library from
    *recording* the warnings a doctest emits (its own catch_warnings(record=True) inherits the filters)."""
    import warnings
    with warnings.catch_warnings():
        warnings.resetwarnings()
        warnings.filterwarnings('default', category=DeprecationWarning, module='__main__')
        warnings.filterwarnings('ignore', category=DeprecationWarning, append=True)
        warnings.filterwarnings('ignore', category=PendingDeprecationWarning, append=True)
        warnings.filterwarnings('ignore', category=ImportWarning, append=True)
        warnings.filterwarnings('ignore', category=ResourceWarning, append=True)
        yield


# third-party pytest plugins installed in the environment have nothing to do with what is observed and one of them
# (rerunfailures) opens a socket per session that an in-process pytest.main never closes: thousands of sessions in
# long-lived workers exhaust the ephemeral ports of the machine.  Only xdoctest's own plugin stays.
PYTEST_ISOLATION_ARGS = ['-p', 'no:cacheprovider', '-p', 'no:rerunfailures', '-p', 'no:xdist', '-p', 'no:benchmark',
                         '-p', 'no:pytest_cov', '-p', 'no:asyncio', '-p', 'no:timeout', '-p', 'no:pytest_mock']
