#!/venv/bin/python
"""Confirm a seeded property-breaking change and run the checks against it.

usage: tools/seeded.py verify <dir> [--checks C01,C02|all] [--tier quick] [--no-suite]
       tools/seeded.py table            (markdown table of seeded/*/meta.json for DESIGN.md)

<dir> holds patch.diff, demo.py and (optionally) notes.json / meta.json.  The tool
  1. makes a scratch git worktree of /repo (outside /repo and /verif), applies patch.diff,
  2. runs the pinned baseline suite there (must stay green, else the change proves nothing),
  3. runs demo.py against the patched tree (must exit != 0) and against /repo (must exit 0),
  4. runs the named checks with VERIF_REPO pointing at the patched tree (evidence and replays are
     redirected to a scratch directory so /verif/evidence stays "unchanged tree" evidence),
  5. replays every VIOLATION replay file against the patched tree (must still fail) and /repo (must hold),
  6. writes the outcome into <dir>/meta.json and removes the worktree.
Nothing here is ever applied to /repo itself.
"""
import os, sys, json, subprocess, shutil, time, re

VERIF = os.path.dirname(os.path.dirname(os.path.abspath(__file__)))
PY = '/venv/bin/python'


def sh(cmd, **kw):
    return subprocess.run(cmd, capture_output=True, text=True, **kw)


def clean_env(extra=None):
    env = dict(os.environ)
    for k in list(env):
        if k.startswith('XDOCTEST_') or k.startswith('VERIF_') or k in ('PYTHONPATH',):
            del env[k]
    env.update(extra or {})
    return env


def verify(d, checks, tier, suite=True):
    d = os.path.abspath(d)
    sid = os.path.basename(d.rstrip('/'))
    meta_path = os.path.join(d, 'meta.json')
    meta = {}
    for fn in ('notes.json', 'meta.json'):
        p = os.path.join(d, fn)
        if os.path.exists(p):
            try:
                meta.update(json.load(open(p)))
            except Exception as ex:
                print('warning: cannot read %s: %s' % (p, ex))
    prop = meta.get('property') or sid[:3]
    if checks == ['all']:
        checks = ['C%02d' % i for i in range(1, 21)]
    elif not checks:
        checks = list(meta.get('properties') or [prop])
    wt = '/tmp/seedchk/%s-%d' % (sid, os.getpid())
    os.makedirs('/tmp/seedchk', exist_ok=True)
    scratch = '/dev/shm/seedchk-%s-%d' % (sid, os.getpid())
    os.makedirs(scratch, exist_ok=True)
    r = sh(['git', '-C', '/repo', 'worktree', 'add', '--detach', wt, 'HEAD'])
    if r.returncode:
        print(r.stderr)
        return 3
    ran = meta.setdefault('ran', {})
    ok = True
    try:
        r = sh(['git', '-C', wt, 'apply', os.path.join(d, 'patch.diff')])
        if r.returncode:
            print('patch does not apply:', r.stderr)
            return 3
        ran['repo_head'] = sh(['git', '-C', '/repo', 'rev-parse', '--short', 'HEAD']).stdout.strip()
        # 2. baseline
        if suite:
            t0 = time.time()
            r = sh([PY, os.path.join(VERIF, 'tools', 'baseline.py'), wt], env=clean_env())
            ran['suite'] = {'cmd': 'tools/baseline.py <patched worktree>', 'exit': r.returncode,
                            'tail': r.stdout.strip().splitlines()[:3], 'seconds': round(time.time() - t0)}
            print('suite exit=%d %s' % (r.returncode, r.stdout.strip().splitlines()[:1]))
            if r.returncode:
                print(r.stdout[-3000:])
                ok = False
        # 3. demo
        demo = os.path.join(d, 'demo.py')
        res = {}
        for label, tree in (('with_change', wt), ('without_change', '/repo')) if os.path.exists(demo) else ():
            r = sh([PY, demo], cwd=scratch, env=clean_env({'PYTHONPATH': os.path.join(tree, 'src')}), timeout=600)
            res[label] = {'exit': r.returncode, 'tail': (r.stdout + r.stderr).strip().splitlines()[-3:]}
        if res:
            ran['demo'] = res
            print('demo with=%d without=%d' % (res['with_change']['exit'], res['without_change']['exit']))
            if res['with_change']['exit'] == 0 or res['without_change']['exit'] != 0:
                ok = False
        # 4. checks
        det = ran.setdefault('checks', {})
        for c in checks:
            rdir = os.path.join(scratch, 'replays', c)
            env = clean_env({'VERIF_REPO': wt, 'VERIF_EVIDENCE_DIR': os.path.join(scratch, 'evidence'),
                             'VERIF_REPLAY_DIR': rdir})
            os.makedirs(env['VERIF_EVIDENCE_DIR'], exist_ok=True)
            t0 = time.time()
            r = sh([os.path.join(VERIF, 'check'), c, tier], env=env)
            out = r.stdout + r.stderr
            vio = [l for l in out.splitlines() if l.startswith('VIOLATION')]
            entry = {'tier': tier, 'exit': r.returncode, 'violations': len(vio), 'seconds': round(time.time() - t0)}
            # first violation's description
            m = re.search(r'^\s*(first|cheapest)[^\n]*\n((?:.*\n){0,6})', out, re.M)
            sigs = []
            reps = []
            for l in vio[:4]:
                mm = re.search(r'replay=(\S+)', l)
                if mm and os.path.exists(mm.group(1)):
                    rp = mm.group(1)
                    try:
                        j = json.load(open(rp))
                        sigs += [a.get('sig') for a in j.get('atoms', [])][:3]
                    except Exception:
                        pass
                    r1 = sh([os.path.join(VERIF, 'check'), 'replay', rp], env=clean_env({'VERIF_REPO': wt}))
                    r2 = sh([os.path.join(VERIF, 'check'), 'replay', rp], env=clean_env())
                    reps.append({'on_patched': r1.returncode, 'on_repo': r2.returncode})
            entry['signatures'] = sorted(set(s for s in sigs if s))[:6]
            entry['replays'] = reps
            if r.returncode not in (0, 1):
                entry['output_tail'] = out.strip().splitlines()[-8:]
            det[c + ':' + tier] = entry
            print('%s %s exit=%d violations=%d sigs=%s replays=%s' % (c, tier, r.returncode, len(vio), entry['signatures'][:3], reps))
        meta['property'] = prop
        meta['confirmed'] = ok
        caught = sorted(k for k, v in det.items() if v['exit'] == 1 and v['violations'] > 0)
        meta['caught_by'] = caught
        json.dump(meta, open(meta_path, 'w'), indent=1)
        return 0 if ok else 2
    finally:
        sh(['git', '-C', '/repo', 'worktree', 'remove', '--force', wt])
        shutil.rmtree(wt, ignore_errors=True)
        shutil.rmtree(scratch, ignore_errors=True)
        sh(['git', '-C', '/repo', 'worktree', 'prune'])


def table():
    root = os.path.join(VERIF, 'seeded')
    print('| id | property | what it changes / needs | caught by |')
    print('|---|---|---|---|')
    for sid in sorted(os.listdir(root)):
        p = os.path.join(root, sid, 'meta.json')
        if not os.path.exists(p):
            continue
        m = json.load(open(p))
        print('| %s | %s | %s — needs: %s | %s |' % (
            sid, m.get('property'), (m.get('summary') or '').replace('|', '/')[:160],
            (m.get('needs_to_manifest') or '').replace('|', '/')[:160],
            ('superseded: ' + m['superseded_by']) if m.get('superseded_by') else (', '.join(m.get('caught_by') or []) or '**missed**')))


if __name__ == '__main__':
    a = sys.argv[1:]
    if a and a[0] == 'table':
        table()
        sys.exit(0)
    if len(a) < 2 or a[0] != 'verify':
        print(__doc__)
        sys.exit(2)
    checks = []
    tier = 'quick'
    suite = True
    i = 2
    while i < len(a):
        if a[i] == '--checks':
            checks = a[i + 1].split(','); i += 2
        elif a[i] == '--tier':
            tier = a[i + 1]; i += 2
        elif a[i] == '--no-suite':
            suite = False; i += 1
        else:
            i += 1
    sys.exit(verify(a[1], checks, tier, suite))
