#!/venv/bin/python
"""Generate /verif/mutants/<name>/{patch.diff,meta.json} from the table of hand-written breaking edits
(those named in the property file + the "aimed at" edits of DESIGN.md section 4).  Each edit is a unique
string replacement in /repo/src; the patch is produced with git diff in a scratch worktree that is
removed afterwards.  `tools/seeded.py verify mutants/<name>` then confirms the suite stays green and runs
the checks against it.  usage: tools/mkmutants.py [name ...]"""
import os, sys, json, subprocess, shutil

VERIF = os.path.dirname(os.path.dirname(os.path.abspath(__file__)))
S = 'src/xdoctest/'
# name: (file, old, new, [properties expected to notice], summary)
MUTS = {
 'K2': (S+'checker.py', 'TRAILING_WS = re.compile(r"[ \\t]*$", re.UNICODE | re.MULTILINE)', 'TRAILING_WS = re.compile(r"[ ]*$", re.UNICODE | re.MULTILINE)', ['C05'], 'tabs no longer count as trailing whitespace'),
 'K3': (S+'checker.py', 'unicode_literal_re = re.compile(r"(\\W|^)[uU]([rR]?[\\\'\\"])", re.UNICODE)', 'unicode_literal_re = re.compile(r"()[uU]([rR]?[\\\'\\"])", re.UNICODE)', ['C05'], 'string-prefix stripping without the word-boundary guard'),
 'M3': (S+'checker.py', 'startpos = got.find(w, startpos, endpos)', 'startpos = got.find(w, startpos)', ['C06'], 'ellipsis scan loses its end bound (pieces may overlap the last piece)'),
 'K4': (S+'checker.py', "                got = repr(got_eval)\n            except Exception as ex:", "                got = str(got_eval)\n            except Exception as ex:", ['C02'], 'value compared through str() instead of repr()'),
 'E16': (S+'doctest_example.py', 'self._unmatched_stdout.append(cap.text)', 'self._unmatched_stdout = [cap.text]', ['C02'], 'only the last want-less chunk is kept for the next want'),
 'M28': (S+'doctest_example.py', "                except checker.GotWantException:\n                    # When the \"got\", doesn't match the \"want\"\n                    self.exc_info = sys.exc_info()\n                    if on_error == 'raise':\n                        raise\n                    break", "                except checker.GotWantException:\n                    # When the \"got\", doesn't match the \"want\"\n                    self.exc_info = sys.exc_info()\n                    if on_error == 'raise':\n                        raise\n                    continue", ['C02'], 'execution continues after a got/want mismatch'),
 'E2': (S+'doctest_example.py', "                        print(f'part[{partx}] No code, skipping')\n                    self._skipped_parts.append(part)\n                    continue", "                        print(f'part[{partx}] No code, skipping')\n                    continue", ['C02'], 'comment-only doctest counts as passed instead of skipped'),
 'P4': (S+'parser.py', '        string = string.expandtabs()\n', '', ['C01', 'C13'], 'tab expansion dropped'),
 'E7': (S+'doctest_example.py', "        # Clear the global namespace so doctests don't leak memory\n        self.global_namespace.clear()\n", '', ['C11'], 'namespace not cleared after a run'),
 'E14': (S+'doctest_example.py', "        self.logged_stdout.clear()\n        self._unmatched_stdout = []\n", "        self.logged_stdout.clear()\n", ['C11'], 'unmatched-output buffer not reset between runs of the same object'),
 'M7': (S+'static_analysis.py', "        if self._current_classname is None:\n            callname = node.name\n            self._current_classname = callname\n            docstr, doclineno, doclineno_end = self._get_docstring(node)", "        if True:\n            prev = self._current_classname\n            callname = node.name if prev is None else prev + '.' + node.name\n            self._current_classname = callname\n            docstr, doclineno, doclineno_end = self._get_docstring(node)", ['C07', 'C16'], 'nested classes collected'),
 'S4': (S+'static_analysis.py', "                        for child in node.orelse:\n                            self.visit(child)\n                        return\n                else:", "                        for child in node.orelse:\n                            self.visit(child)\n                        pass\n                else:", ['C07', 'C16'], 'definitions under the __main__ guard collected'),
 'E4': (S+'doctest_example.py', "                            found_lineno = sub_tb.tb_lineno\n                            break", "                            found_lineno = sub_tb.tb_lineno", ['C08', 'C09'], 'innermost instead of outermost doctest frame gives the failing line'),
 'C3raise': (S+'checker.py', "        # Reraise the error if the want message is formatted like an exception\n        raise\n", "        # Reraise the error if the want message is formatted like an exception\n        return True\n", ['C03'], 'exception with a non-traceback want swallowed'),
 'D_leak': (S+'directive.py', "        # Clear the previous inline state\n        self._inline_state.clear()\n", "        # Clear the previous inline state\n        self._inline_state.pop('SKIP', None)\n", ['C04'], 'inline overlay cleared for SKIP only'),
 'P_deco': (S+'parser.py', "                if hasattr(node, 'decorator_list') and node.decorator_list:\n                    lineno = node.decorator_list[0].lineno - 1\n                else:\n                    lineno = node.lineno - 1", "                lineno = node.lineno - 1", ['C01', 'C04'], 'decorator start ignored when locating statements'),
 'P_comment': (S+'parser.py', "                if i in interval_starts and line.startswith('#'):", "                if False and i in interval_starts and line.startswith('#'):", ['C04'], 'comment-as-statement handling removed (block directive becomes inline)'),
 'P_evalsplit': (S+'parser.py', "                s2 = ps1_linenos[-1]\n                if s2 != s1:", "                s2 = len(source_lines) - 1\n                if s2 != s1:", ['C01', 'C02', 'C04'], 'final-expression split at the last physical line'),
 'P_wantdedent': (S+'parser.py', "                elif line_indent < state_indent:\n                    curr_state = TEXT\n                else:\n                    curr_state = WANT", "                else:\n                    curr_state = WANT", ['C13'], 'de-indent no longer ends a want'),
 'U_pos': (S+'utils/util_stream.py', "        self._pos = self.cap_stdout.tell()\n", "", ['C01', 'C02'], 'capture cursor not advanced (output duplicated)'),
 'E_asyncval': (S+'doctest_example.py', "                                    got_eval = asyncio.run(eval(code, test_globals))", "                                    asyncio.run(eval(code, test_globals))", ['C01'], 'value of an awaited expression dropped'),
 'E_inlineafter': (S+'parser.py', "                if directives[0].inline:\n                    if s2 is not None:\n                        break_linenos.append(s2)", "                pass", ['C04'], 'no part break after an inline directive'),
 'E_clearunm': (S+'doctest_example.py', "                            # Clear unmatched output when a check passes\n                            self._unmatched_stdout = []", "                            # Clear unmatched output when a check passes\n                            pass", ['C02'], 'unmatched buffer not cleared after a passing want'),
 'S_stop': (S+'utils/util_stream.py', "            try:\n                self.log_part()\n            except Exception:  # nocover\n                raise\n            finally:\n                self.stop()", "            self.log_part()\n            if trace is None:\n                self.stop()", ['C12'], 'capture stop() only on the success path'),
 'I_pop': (S+'utils/util_import.py', "        with PythonPathContext(dpath, index=index):\n            module = import_module_from_name(modname)", "        ctx = PythonPathContext(dpath, index=index)\n        ctx.__enter__()\n        module = import_module_from_name(modname)\n        ctx.__exit__(None, None, None)", ['C12', 'C17'], 'sys.path entry popped only when the import succeeds'),
 'I_initchain': (S+'utils/util_import.py', "            if not exists(join(subdir, '__init__.py')):\n                return False\n            subdir = dirname(subdir)", "            subdir = dirname(subdir)", ['C17'], '__init__.py chain check disabled'),
 'R_disabled': (S+'runner.py', "                if gather_all and example.is_disabled():\n                    continue\n", "", ['C10', 'C15'], "force-disabled doctests run under 'all'"),
 'P_single': (S+'parser.py', "                if all(_hasprefix(s, ('...',)) for s in source_lines[1:]):\n                    mode_hint = 'single'", "                if all(_hasprefix(s, ('...',)) for s in source_lines[1:]):\n                    pass", ['C20'], "old-style examples no longer compiled in 'single' mode"),
 'F_startline': (S+'doctest_example.py', "            if offset_linenos:\n                startline = self.lineno\n            n_lines", "            if offset_linenos:\n                startline = self.lineno + 1\n            n_lines", ['C18'], 'file-relative displayed line numbers off by one'),
}


def main(names):
    out = os.path.join(VERIF, 'mutants')
    os.makedirs(out, exist_ok=True)
    wt = '/tmp/mkmut-%d' % os.getpid()
    subprocess.run(['git', '-C', '/repo', 'worktree', 'add', '--detach', wt, 'HEAD'], check=True, capture_output=True)
    try:
        for name in names or sorted(MUTS):
            f, a, b, props, summary = MUTS[name]
            p = os.path.join(wt, f)
            s = open(p).read()
            if s.count(a) != 1:
                print('SKIP %s: pattern occurs %d times' % (name, s.count(a)))
                continue
            open(p, 'w').write(s.replace(a, b))
            diff = subprocess.run(['git', '-C', wt, 'diff'], capture_output=True, text=True).stdout
            subprocess.run(['git', '-C', wt, 'checkout', '--', '.'], check=True)
            d = os.path.join(out, name)
            os.makedirs(d, exist_ok=True)
            open(os.path.join(d, 'patch.diff'), 'w').write(diff)
            mp = os.path.join(d, 'meta.json')
            meta = json.load(open(mp)) if os.path.exists(mp) else {}
            meta.update({'property': props[0], 'properties': props, 'summary': summary, 'origin': 'hand-written (tools/mkmutants.py)'})
            json.dump(meta, open(mp, 'w'), indent=1)
            print('wrote', d)
    finally:
        subprocess.run(['git', '-C', '/repo', 'worktree', 'remove', '--force', wt], capture_output=True)
        shutil.rmtree(wt, ignore_errors=True)


if __name__ == '__main__':
    main(sys.argv[1:])
