#!/bin/bash
# copy finished sub-agent deliverables into /verif/seeded (no verification here; /tmp/seed/runner.sh does that)
cd /verif
for d in /tmp/seed/out/*/; do x=$(basename $d);
  [ -f $d/patch.diff ] && [ -f $d/demo.py ] && [ -f $d/notes.json ] || continue
  [ -d seeded/$x ] && continue
  cp -r $d seeded/$x; echo "ingest $x"
done
