#!/bin/bash
# usage: stream.sh <logfile> [--no-suite] ids...
log=$1; shift
flag=""
if [ "$1" == "--no-suite" ]; then flag="--no-suite"; shift; fi
cd /verif
for x in "$@"; do echo "== $x" >> $log; tools/seeded.py verify seeded/$x $flag 2>&1 | grep -v WARNING | tail -4 >> $log; done
echo "STREAM DONE" >> $log
