#!/venv/bin/python
"""Run the repository's pinned baseline suite on a tree and compare with /root/.vp/BASELINE.json.
usage: tools/baseline.py [repo_dir]   (exit 0 = every stable test still passes)"""
import os, sys, json, subprocess, tempfile, xml.etree.ElementTree as ET
repo = os.path.abspath(sys.argv[1] if len(sys.argv) > 1 else '/repo')
base = json.load(open('/root/.vp/BASELINE.json'))
out = tempfile.mkdtemp(prefix='baseline-', dir='/dev/shm')
junit = os.path.join(out, 'junit.xml')
env = dict(os.environ)
for k in list(env):
    if k.startswith('XDOCTEST_') or k in ('VERIF_REPO',):
        del env[k]
if repo != '/repo':
    env['PYTHONPATH'] = os.path.join(repo, 'src')
cmd = ['/venv/bin/python', '-m', 'pytest', '-ra', '-q', '-p', 'no:cacheprovider', '--timeout=900',
       '--continue-on-collection-errors', '--junitxml=' + junit] + sys.argv[2:]
r = subprocess.run(cmd, cwd=repo, env=env, capture_output=True, text=True)
passed = set()
failed = set()
for tc in ET.parse(junit).getroot().iter('testcase'):
    name = tc.get('classname', '') + '::' + tc.get('name', '')
    bad = any(ch.tag in ('failure', 'error') for ch in tc)
    skipped = any(ch.tag == 'skipped' for ch in tc)
    (failed if bad else passed).add(name) if not skipped else None
stable = set(base['stable_pass'])
missing = sorted(t for t in stable if t not in passed)
print('passed=%d failed=%d stable=%d missing_from_passed=%d' % (len(passed), len(failed), len(stable), len(missing)))
for m in missing[:40]:
    print('  NOT PASSING:', m)
if missing:
    print(r.stdout[-6000:])
import shutil; shutil.rmtree(out, ignore_errors=True)
sys.exit(1 if missing else 0)
