"""xmc - a small explicit-state / bounded-exhaustive explorer written for this task."""
