import os
import sys
import importlib

VERIF = os.path.dirname(os.path.dirname(os.path.abspath(__file__)))
if VERIF not in sys.path:
    sys.path.insert(0, VERIF)

from xmc import core  # noqa


def specs_for(prop, tier):
    mod = importlib.import_module('checks.' + prop.lower())
    return mod.specs(tier)


def main(argv):
    if not argv:
        print(__doc__ or 'usage: check <Cxx> quick|thorough | check replay <file> | check selftest')
        return 2
    if argv[0] == 'replay':
        return core.replay_file(argv[1], specs_for, sigs_only='--sigs' in argv)
    if argv[0] == 'selftest':
        from xmc import selftest
        return selftest.main()
    prop = argv[0].upper()
    tier = argv[1] if len(argv) > 1 else os.environ.get('VERIF_TIER', 'quick')
    core.bind_repo()
    mod = importlib.import_module('checks.' + prop.lower())
    specs = mod.specs(tier)
    only = os.environ.get('VERIF_ONLY_SPEC')
    if only:
        specs = [s for s in specs if s.name in only.split(',')]
    return core.run_check(prop, tier, specs, mod.LEVEL)


if __name__ == '__main__':
    sys.exit(main(sys.argv[1:]))
