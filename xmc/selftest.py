"""selftest: the explorer on a toy model with a planted bug must report it, and must stay silent
on the correct toy implementation; evidence must validate against the schema."""
import os
import sys
import json
import shutil
import tempfile
import subprocess

from xmc import core


class ToyStack(object):
    """toy implementation: bounded stack; `buggy` drops the 2nd push after a pop"""
    def __init__(self, buggy):
        self.items = []
        self.buggy = buggy
        self.popped = False

    def apply(self, ev):
        if ev[0] == 'push':
            if self.buggy and self.popped and len(self.items) == 1:
                return
            self.items.append(ev[1])
        elif ev[0] == 'pop':
            if self.items:
                self.items.pop()
                self.popped = True


class ToySpec(core.Spec):
    prop = 'C00'
    name = 'toy'
    rule = 'all push/pop histories up to length 4; non-trivial = history contains a pop'
    max_len = 4
    max_cost = 99

    def __init__(self, buggy):
        self.buggy = buggy

    def enabled(self, S, hist):
        return [('push', 1), ('push', 2), ('pop',)]

    def step(self, S, ev):
        if ev[0] == 'push':
            return S + (ev[1],)
        return S[:-1]

    def run_case(self, hist):
        S = ()
        impl = ToyStack(self.buggy)
        for ev in hist:
            S = self.step(S, ev)
            impl.apply(ev)
        atoms = []
        if tuple(impl.items) != S:
            atoms.append({'sig': 'toy:state', 'msg': '%r vs %r' % (impl.items, S)})
        return {'atoms': atoms, 'outcome': len(S), 'case': list(hist), 'nontrivial': ('pop',) in hist}


def specs(tier):
    return [ToySpec(tier == 'thorough')]


LEVEL = 'model_checking'


def main():
    tmp = tempfile.mkdtemp(prefix='xmc-selftest-', dir='/dev/shm' if os.path.isdir('/dev/shm') else None)
    env = dict(os.environ, VERIF_EVIDENCE_DIR=tmp, VERIF_REPLAY_DIR=tmp)
    ok = True
    try:
        # the toy check is addressed as property 'SELFTEST' -> checks/selftest.py shim
        r0 = subprocess.run([sys.executable, '-m', 'xmc', 'SELFTEST', 'quick'], cwd=core.VERIF, env=env,
                            capture_output=True, text=True)
        r1 = subprocess.run([sys.executable, '-m', 'xmc', 'SELFTEST', 'thorough'], cwd=core.VERIF, env=env,
                            capture_output=True, text=True)
        if r0.returncode != 0 or 'VIOLATION' in r0.stdout:
            print('selftest: correct toy implementation raised an alarm\n' + r0.stdout + r0.stderr)
            ok = False
        if r1.returncode != 1 or 'VIOLATION property=SELFTEST replay=' not in r1.stdout:
            print('selftest: planted bug not reported\n' + r1.stdout + r1.stderr)
            ok = False
        else:
            path = r1.stdout.split('replay=')[1].split()[0]
            hist = json.load(open(path))['history']
            if len(hist) != 4:
                print('selftest: counterexample is not minimal: %r' % (hist,))
                ok = False
            r2 = subprocess.run([sys.executable, '-m', 'xmc', 'replay', path], cwd=core.VERIF, env=env,
                                capture_output=True, text=True)
            if r2.returncode != 1:
                print('selftest: replay of the counterexample does not fail\n' + r2.stdout + r2.stderr)
                ok = False
        ev = json.load(open(os.path.join(tmp, 'SELFTEST.json')))
        if ev['coverage']['histories'] != 3 + 9 + 27 + 81 or ev['coverage']['states'] < 10:
            print('selftest: unexpected coverage %r' % (ev['coverage'],))
            ok = False
    finally:
        shutil.rmtree(tmp, ignore_errors=True)
    x = core.bind_repo()
    print('selftest: %s (xdoctest %s from %s, python %s)' % ('ok' if ok else 'FAILED', x.__version__,
                                                            os.path.dirname(x.__file__), sys.version.split()[0]))
    return 0 if ok else 3
