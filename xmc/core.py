"""
xmc core: bounded exhaustive (explicit-state, stateless-replay) explorer for Python code.

A *Spec* describes a reference model (init/enabled/step/canon/final) whose bounded
histories are enumerated exhaustively (depth-first, pruned by a deviation-cost bound)
in the parent process; every final history is shipped to a pool of forked workers
which concretise it, run it against the real xdoctest code and judge the observation
(`Spec.run_case`).  No random choice is made anywhere.

Exit codes of a check:  0 held (known findings are printed), 1 VIOLATION,
3 harness error / nondeterminism (never used to hide a violation).
"""
import os
import sys
import json
import time
import zlib
import signal
import hashlib
import traceback
import collections
import subprocess
import multiprocessing

VERIF = os.path.dirname(os.path.dirname(os.path.abspath(__file__)))
REPO = os.path.abspath(os.environ.get('VERIF_REPO', '/repo'))
SEED = int(os.environ.get('VERIF_SEED', '0') or 0)
NWORKERS = int(os.environ.get('VERIF_WORKERS', '0') or 0) or min(16, os.cpu_count() or 4)
CASE_TIMEOUT = int(os.environ.get('VERIF_CASE_TIMEOUT', '90'))
BATCH = 128


def bind_repo():
    """Put the tree under test first on sys.path and make sure that is what gets imported."""
    src = os.path.join(REPO, 'src')
    if sys.path[0] != src:
        sys.path.insert(0, src)
    for k in list(sys.modules):
        if k == 'xdoctest' or k.startswith('xdoctest.'):
            f = getattr(sys.modules[k], '__file__', None) or ''
            if not os.path.realpath(f).startswith(os.path.realpath(src)):
                del sys.modules[k]
    import xdoctest
    real = os.path.realpath(xdoctest.__file__)
    assert real.startswith(os.path.realpath(src) + os.sep), (
        'xdoctest imported from %s, expected under %s' % (real, src))
    return xdoctest


class CaseTimeout(BaseException):
    pass


def _alarm(signum, frame):
    raise CaseTimeout()


class Spec(object):
    """One sub-check of a property.  Override what is needed."""
    prop = 'C00'
    name = 'main'
    title = ''
    rule = ''                      # how cases are enumerated / what is non-trivial
    timeout_is_violation = False
    max_len = 0
    max_cost = 0
    assumptions = ()

    # ---- reference model (parent process) ----
    def init(self):
        return ()

    def enabled(self, S, hist):
        return ()

    def cost(self, ev):
        return 0

    def step(self, S, ev):
        return S

    def canon(self, S):
        return S

    def final(self, S, hist):
        return True

    def histories(self, stats):
        """Depth-first enumeration of all histories of the model with len <= max_len
        and total deviation cost <= max_cost.  Counts canonical states/transitions."""
        seen = stats.setdefault('_states', set())
        trans = stats.setdefault('_trans', set())
        S0 = self.init()
        seen.add(self.canon(S0))
        stack = [(S0, (), 0)]
        while stack:
            S, hist, c = stack.pop()
            if hist and self.final(S, hist):
                yield hist
            if len(hist) >= self.max_len:
                continue
            k = self.canon(S)
            nxt = []
            for ev in self.enabled(S, hist):
                ce = c + self.cost(ev)
                if ce > self.max_cost:
                    continue
                S2 = self.step(S, ev)
                k2 = self.canon(S2)
                seen.add(k2)
                trans.add((k, self.evkey(ev), k2))
                nxt.append((S2, hist + (ev,), ce))
            stack.extend(reversed(nxt))

    def evkey(self, ev):
        return ev

    # ---- worker side ----
    def run_case(self, hist):
        """Concretise + expect + observe + judge.  Returns a dict:
             atoms: [ {sig, msg} ]   discrepancies (empty = held)
             outcome: str            for distinct-outcome counting
             nontrivial: bool/int
             n: int                  evaluations represented (default 1)
             unspec: int             cells executed but not judged
             case: JSON              concrete case (kept for samples / replays)
             fails: [ (replay_hist, atoms, case) ]   for sharded specs
        """
        raise NotImplementedError

    def hist_cost(self, hist):
        return sum(self.cost(ev) for ev in hist)


# --------------------------------------------------------------------------------------
# worker pool

_SPECS = {}


def _winit():
    signal.signal(signal.SIGALRM, _alarm)
    signal.signal(signal.SIGINT, signal.SIG_IGN)
    sys.argv = ['xmc']
    devnull = open(os.devnull, 'w')
    sys.stdout = devnull
    sys.stderr = devnull
    sys.__stdout__ = devnull
    sys.__stderr__ = devnull
    try:
        os.dup2(devnull.fileno(), 1)
        os.dup2(devnull.fileno(), 2)
    except OSError:
        pass


def _snapshot_globals():
    import warnings
    return (sys.stdout, sys.stderr, list(sys.path), list(warnings.filters), os.getcwd(),
            sys.argv)


def _restore_globals(snap):
    import warnings
    dirty = []
    if sys.stdout is not snap[0]:
        sys.stdout = snap[0]; dirty.append('stdout')
    if sys.stderr is not snap[1]:
        sys.stderr = snap[1]; dirty.append('stderr')
    if sys.path != snap[2]:
        sys.path[:] = snap[2]; dirty.append('path')
    if list(warnings.filters) != snap[3]:
        warnings.filters[:] = snap[3]; dirty.append('warnfilters')
        if hasattr(warnings, '_filters_mutated'):
            warnings._filters_mutated()
    try:
        if os.getcwd() != snap[4]:
            os.chdir(snap[4]); dirty.append('cwd')
    except OSError:
        os.chdir(snap[4]); dirty.append('cwd')
    if sys.argv is not snap[5]:
        sys.argv = snap[5]
    return dirty


_LIBSTATE = {}


def _library_containers():
    """(module name, attribute) -> module-level dict / list / set of the library under test"""
    out = {}
    for mname, mod in list(sys.modules.items()):
        if mod is None or not (mname == 'xdoctest' or mname.startswith('xdoctest.')):
            continue
        for attr, val in list(vars(mod).items()):
            if attr.startswith('__'):
                continue
            if type(val) in (dict, list, set):
                out[(mname, attr)] = val
    return out


def reset_library_state():
    """Every case starts from the module-level state the library had when it was first imported into this
    process: containers at module level (caches such as directive._MODNAME_EXISTS_CACHE) are restored in
    place and functools caches are cleared.  What one case leaves behind can then not reach the next case of
    the same worker, so a worker observes for a case exactly what a fresh replay of that case observes;
    state carried *inside* one history is untouched (that is what the histories explore)."""
    import copy
    import functools
    conts = _library_containers()
    for key, val in conts.items():
        if key not in _LIBSTATE:
            try:
                _LIBSTATE[key] = copy.deepcopy(val)
            except Exception:
                _LIBSTATE[key] = None
            continue
        orig = _LIBSTATE[key]
        if orig is None or val == orig:
            continue
        try:
            fresh = copy.deepcopy(orig)
            if isinstance(val, dict):
                val.clear(); val.update(fresh)
            elif isinstance(val, list):
                val[:] = fresh
            else:
                val.clear(); val.update(fresh)
        except Exception:
            pass
    for mname, mod in list(sys.modules.items()):
        if mod is None or not (mname == 'xdoctest' or mname.startswith('xdoctest.')):
            continue
        for attr, val in list(vars(mod).items()):
            cc = getattr(val, 'cache_clear', None)
            if cc is not None and callable(cc) and hasattr(val, 'cache_info'):
                try:
                    cc()
                except Exception:
                    pass


def run_one(spec, hist):
    """Run a single case with timeout + hygiene.  Always returns a result dict."""
    snap = _snapshot_globals()
    reset_library_state()
    t0 = time.time()
    # the REPL variable '_' (set in builtins by sys.displayhook whenever a part is compiled in 'single'
    # mode) must not travel from one case to the next inside a worker
    import builtins
    builtins.__dict__.pop('_', None)
    try:
        signal.alarm(int(getattr(spec, 'case_timeout', 0) or CASE_TIMEOUT))
        try:
            res = spec.run_case(hist)
        finally:
            signal.alarm(0)
    except CaseTimeout:
        kind = 'timeout' if spec.timeout_is_violation else 'HARNESS:timeout'
        res = {'atoms': [{'sig': kind, 'msg': 'case exceeded %ds' % int(getattr(spec, 'case_timeout', 0) or CASE_TIMEOUT)}],
               'outcome': 'timeout'}
    except BaseException as ex:   # harness bug or an escape the spec did not classify
        res = {'atoms': [{'sig': 'HARNESS:' + type(ex).__name__,
                          'msg': traceback.format_exc()[-3000:]}],
               'outcome': 'harness-error'}
    dirty = _restore_globals(snap)
    if dirty:
        res.setdefault('dirty', dirty)
    res['t'] = time.time() - t0
    return res


def _run_batch(arg):
    specname, hists = arg
    spec = _SPECS[specname]
    agg = {'spec': specname, 'n': 0, 'cases': 0, 'nontrivial': 0, 'unspec': 0, 'outcomes': collections.Counter(),
           'fails': [], 'samples': [], 'dirty': 0, 'tmax': 0.0, 'counters': collections.Counter(),
           'mstates': 0, 'mtrans': 0}
    for hist in hists:
        res = run_one(spec, hist)
        agg['cases'] += 1
        agg['n'] += int(res.get('n', 1))
        agg['nontrivial'] += int(res.get('nontrivial', 1))
        agg['unspec'] += int(res.get('unspec', 0))
        agg['mstates'] += int(res.get('model_states', 0))
        agg['mtrans'] += int(res.get('model_transitions', 0))
        oc = res.get('outcomes')
        if oc:
            agg['outcomes'].update(oc)
        else:
            agg['outcomes'][str(res.get('outcome', 'ok'))] += 1
        if res.get('counters'):
            agg['counters'].update(res['counters'])
        if res.get('dirty'):
            agg['dirty'] += 1
        agg['tmax'] = max(agg['tmax'], res['t'])
        fails = res.get('fails')
        if fails is None and res.get('atoms'):
            fails = [(hist, res['atoms'], res.get('case'))]
        for f in (fails or []):
            if len(agg['fails']) < 50:
                agg['fails'].append((f[0], f[1], f[2] if len(f) > 2 else None))
            else:
                agg['counters']['fails_truncated'] += 1
            for a in f[1]:
                agg['counters']['atom:' + a['sig']] += 1
        h = zlib.crc32((repr(hist) + str(SEED)).encode())
        if 'case' in res and (len(agg['samples']) < 2 or h < agg['samples'][-1][0]):
            agg['samples'].append((h, {'history': hist, 'case': res['case'],
                                       'outcome': res.get('outcome', 'ok')}))
            agg['samples'].sort(key=lambda x: x[0])
            del agg['samples'][2:]
    return agg


def _batches(spec, stats):
    buf = []
    for hist in spec.histories(stats):
        buf.append(hist)
        if len(buf) >= getattr(spec, 'batch', BATCH):
            yield (spec.key, buf)
            buf = []
    if buf:
        yield (spec.key, buf)


# --------------------------------------------------------------------------------------
# known findings

def load_findings():
    p = os.path.join(VERIF, 'known_findings.json')
    if not os.path.exists(p):
        return []
    with open(p) as f:
        return json.load(f).get('findings', [])


def match_finding(findings, prop, sig):
    for f in findings:
        if f.get('status') == 'known' and f.get('property') == prop and f.get('signature') == sig:
            return f
    return None


# --------------------------------------------------------------------------------------
# driver

def jsonable(x):
    if isinstance(x, (str, int, float, bool)) or x is None:
        return x
    if isinstance(x, (list, tuple)):
        return [jsonable(i) for i in x]
    if isinstance(x, dict):
        return {str(k): jsonable(v) for k, v in x.items()}
    if isinstance(x, (set, frozenset)):
        return sorted((jsonable(i) for i in x), key=repr)
    return repr(x)


def untuple(x):
    """JSON round trip turns tuples into lists: histories are compared as tuples."""
    if isinstance(x, list):
        return tuple(untuple(i) for i in x)
    return x


def run_check(prop, tier, specs, level, extra_assumptions=()):
    t_start = time.time()
    bind_repo()
    import xdoctest.directive, xdoctest.runner, xdoctest.core, xdoctest.plugin      # noqa: make the snapshot complete
    reset_library_state()          # snapshot of the pristine module-level state, inherited by the forked workers
    findings = load_findings()
    for s in specs:
        s.key = s.prop + ':' + s.name
        _SPECS[s.key] = s
    ctx = multiprocessing.get_context('fork')
    total = {'n': 0, 'cases': 0, 'nontrivial': 0, 'unspec': 0, 'dirty': 0}
    outcomes = collections.Counter()
    counters = collections.Counter()
    all_fails = []          # (spec, hist, atoms, case)
    per_spec = {}
    samples = []
    states = 0
    transitions = 0
    pool = ctx.Pool(NWORKERS, initializer=_winit)
    try:
        t0 = time.time()
        stats_by = {spec.key: {} for spec in specs}
        subs = {spec.key: {'n': 0, 'cases': 0, 'nontrivial': 0, 'unspec': 0,
                           'outcomes': collections.Counter(), 'tmax': 0.0, 'mstates': 0, 'mtrans': 0,
                           'samples': [], 'tlast': t0} for spec in specs}
        by_key = {spec.key: spec for spec in specs}

        def all_batches():
            for spec in specs:
                for b in _batches(spec, stats_by[spec.key]):
                    yield b

        for agg in pool.imap_unordered(_run_batch, all_batches()):
            sub = subs[agg['spec']]
            spec = by_key[agg['spec']]
            for k in ('n', 'cases', 'nontrivial', 'unspec'):
                sub[k] += agg[k]
                total[k] += agg[k]
            sub['mstates'] += agg['mstates']
            sub['mtrans'] += agg['mtrans']
            total['dirty'] += agg['dirty']
            sub['outcomes'].update(agg['outcomes'])
            counters.update(agg['counters'])
            sub['tmax'] = max(sub['tmax'], agg['tmax'])
            sub['tlast'] = time.time()
            for hist, atoms, case in agg['fails']:
                all_fails.append((spec, hist, atoms, case))
            sub['samples'].extend(agg['samples'])
            sub['samples'].sort(key=lambda x: x[0])
            del sub['samples'][2:]
        for spec in specs:
            sub = subs[spec.key]
            stats = stats_by[spec.key]
            for _, smp in sub['samples'][:2]:
                smp = dict(smp); smp['spec'] = spec.name
                samples.append(smp)
            ns = (len(stats.get('_states', ())) or int(stats.get('states', 0))) + sub['mstates']
            nt = (len(stats.get('_trans', ())) or int(stats.get('transitions', 0))) + sub['mtrans']
            states += ns
            transitions += nt
            outcomes.update({spec.name + ':' + k: v for k, v in sub['outcomes'].items()})
            per_spec[spec.name] = {
                'title': spec.title, 'bound': {'max_len': spec.max_len, 'max_cost': spec.max_cost,
                                               **getattr(spec, 'bound_extra', {})},
                'histories': sub['cases'], 'evaluations': sub['n'], 'nontrivial': sub['nontrivial'],
                'unspecified_cells': sub['unspec'], 'model_states': ns, 'model_transitions': nt,
                'distinct_outcomes': len(sub['outcomes']),
                'outcomes': dict(sub['outcomes'].most_common(12)),
                'slowest_case_s': round(sub['tmax'], 3), 'finished_at_s': round(sub['tlast'] - t0, 2),
                'rule': spec.rule,
            }
            sys.stdout.write('[%s/%s] %s: histories=%d evals=%d states=%d transitions=%d outcomes=%d (done at %.1fs)\n' % (
                prop, tier, spec.name, sub['cases'], sub['n'], ns, nt, len(sub['outcomes']), sub['tlast'] - t0))
            sys.stdout.flush()
    finally:
        pool.terminate()
        pool.join()

    # ---- classify discrepancies ----
    known_hit = collections.OrderedDict()
    violations = []      # (spec, hist, atoms(unknown only), case)
    harness = []
    for spec, hist, atoms, case in all_fails:
        unknown = []
        for a in atoms:
            if a['sig'].startswith('HARNESS:'):
                harness.append((spec, hist, a))
                continue
            f = match_finding(findings, prop, a['sig'])
            if f is not None:
                known_hit.setdefault(f['id'], [f, 0])[1] += 1
            else:
                unknown.append(a)
        if unknown:
            violations.append((spec, hist, unknown, case))
    violations.sort(key=lambda v: (v[0].hist_cost(v[1]) if _is_model_hist(v[0], v[1]) else 0,
                                   len(repr(v[1]))))
    exit_code = 0
    replay_paths = []
    seen_sigs = set()
    n_confirm = 0
    for spec, hist, atoms, case in violations:
        sigs = tuple(sorted(a['sig'] for a in atoms))
        if sigs in seen_sigs:
            continue
        seen_sigs.add(sigs)
        if n_confirm >= 4:
            continue
        n_confirm += 1
        path = write_replay(prop, spec, tier, hist, atoms, case)
        ok, why = confirm_replay(path, sigs)
        if ok:
            print('VIOLATION property=%s replay=%s' % (prop, path))
            for a in atoms[:3]:
                print('    %s: %s' % (a['sig'], (a.get('msg') or '')[:400].replace('\n', '\n      ')))
            replay_paths.append(path)
            exit_code = 1
        else:
            print('HARNESS-NONDETERMINISM property=%s replay=%s (%s)' % (prop, path, why))
            if exit_code == 0:
                exit_code = 3
    for fid, (f, cnt) in known_hit.items():
        print('KNOWN-FINDING: property=%s %s [%s, %d case(s) in this run]' % (prop, f['what'], fid, cnt))
    if harness:
        spec, hist, a = harness[0]
        print('HARNESS-ERROR property=%s spec=%s n=%d first=%s' % (prop, spec.name, len(harness), a['sig']))
        print('   history: %r' % (hist,))
        print('   ' + (a.get('msg') or '').replace('\n', '\n   '))
        if exit_code == 0:
            exit_code = 3

    wall = time.time() - t_start
    exhaustive = not counters.get('cap_hit')
    cov = {
        'evaluations': total['n'],
        'distinct_nontrivial': total['nontrivial'],
        'rule': ' || '.join('%s: %s' % (s.name, s.rule) for s in specs),
        'samples': jsonable(samples[:8]),
        'states': states,
        'transitions': transitions,
        'traces_validated_against_impl': total['cases'],
        'exhaustive': bool(exhaustive),
        'histories': total['cases'],
        'unspecified_cells_executed_not_judged': total['unspec'],
        'distinct_outcomes': len(outcomes),
        'per_spec': per_spec,
        'counters': {k: v for k, v in sorted(counters.items())},
        'cases_leaving_process_globals_dirty': total['dirty'],
        'known_findings_hit': {fid: cnt for fid, (f, cnt) in known_hit.items()},
        'violating_cases': len(violations),
        'replays': replay_paths,
        'workers': NWORKERS,
        'tree_under_test': REPO,
        'explanation': ('Bounded exhaustive exploration: every history of the reference model within the '
                        'stated bound was concretised and replayed on the real xdoctest code in a worker '
                        'process, and the observation compared with the model prediction.'),
    }
    ev = {
        'property_id': prop, 'tier': tier, 'seed': SEED, 'level': level, 'coverage': cov,
        'assumptions': list(extra_assumptions) + [a for s in specs for a in s.assumptions],
        'wall_s': round(wall, 2), 'violations': len(violations),
    }
    write_evidence(prop, ev)
    print('[%s/%s] done: evaluations=%d histories=%d states=%d transitions=%d violations=%d known=%s wall=%.1fs exit=%d' % (
        prop, tier, total['n'], total['cases'], states, transitions, len(violations),
        ','.join(known_hit) or '-', wall, exit_code))
    return exit_code


def _is_model_hist(spec, hist):
    try:
        spec.hist_cost(hist)
        return True
    except Exception:
        return False


def write_evidence(prop, ev):
    d = os.environ.get('VERIF_EVIDENCE_DIR') or os.path.join(VERIF, 'evidence')
    os.makedirs(d, exist_ok=True)
    path = os.path.join(d, prop + '.json')
    tmp = path + '.tmp%d' % os.getpid()
    with open(tmp, 'w') as f:
        json.dump(ev, f, indent=1, sort_keys=True)
        f.write('\n')
    err = validate_evidence(tmp)
    if err:
        os.unlink(tmp)
        print('HARNESS-ERROR evidence does not validate: %s' % err)
        sys.exit(3)
    os.replace(tmp, path)


def validate_evidence(path):
    schema = '/root/.vp/EVIDENCE.schema.json'
    if not os.path.exists(schema):
        schema = os.path.join(VERIF, 'xmc', 'EVIDENCE.schema.json')
    code = ('import json,sys,jsonschema;'
            'jsonschema.validate(json.load(open(sys.argv[1])), json.load(open(sys.argv[2])))')
    for py in ('python3-vt', '/opt/veriftools/pyvenv/bin/python'):
        try:
            env = {k: v for k, v in os.environ.items() if not k.startswith('PYTHON')}
            r = subprocess.run([py, '-c', code, path, schema], capture_output=True, text=True,
                               timeout=120, env=env)
        except (OSError, subprocess.TimeoutExpired):
            continue
        if r.returncode == 0:
            return None
        return r.stderr.strip().splitlines()[-1] if r.stderr.strip() else 'validator failed'
    # no validator available: minimal structural check
    ev = json.load(open(path))
    for k in ('property_id', 'tier', 'seed', 'level', 'coverage', 'wall_s'):
        if k not in ev:
            return 'missing ' + k
    return None


def write_replay(prop, spec, tier, hist, atoms, case):
    d = os.environ.get('VERIF_REPLAY_DIR') or os.path.join(VERIF, 'replays', prop)
    os.makedirs(d, exist_ok=True)
    blob = {'property': prop, 'spec': spec.name, 'tier': tier, 'history': jsonable(hist),
            'case': jsonable(case), 'atoms': jsonable(atoms),
            'how_to_replay': './check replay <this file>'}
    sha = hashlib.sha1(json.dumps([prop, spec.name, blob['history']], sort_keys=True).encode()).hexdigest()[:12]
    path = os.path.join(d, sha + '.json')
    with open(path, 'w') as f:
        json.dump(blob, f, indent=1, sort_keys=True)
        f.write('\n')
    return path


def confirm_replay(path, sigs):
    """Re-execute the case twice in a fresh interpreter; both must reproduce the same atoms."""
    got = []
    for i in range(2):
        try:
            r = subprocess.run([sys.executable, '-m', 'xmc', 'replay', path, '--sigs'], cwd=VERIF,
                               capture_output=True, text=True, timeout=600)
        except subprocess.TimeoutExpired:
            return False, 'replay timed out'
        lines = [l for l in r.stdout.splitlines() if l.startswith('SIGS ')]
        if not lines:
            return False, 'replay printed no verdict (rc=%s) %s' % (r.returncode, r.stderr[-300:])
        got.append(tuple(json.loads(lines[-1][5:])))
    if got[0] != got[1]:
        return False, 'two fresh replays disagree: %r vs %r' % got
    want = set(s for s in sigs)
    if not want & set(got[0]):
        return False, 'fresh replay gives %r, pool gave %r' % (got[0], sorted(want))
    return True, ''


def replay_file(path, specs_for, sigs_only=False):
    blob = json.load(open(path))
    prop = blob['property']
    bind_repo()
    import xdoctest.directive, xdoctest.runner, xdoctest.core, xdoctest.plugin      # noqa
    reset_library_state()
    spec = None
    for s in specs_for(prop, blob.get('tier', 'quick')):
        if s.name == blob['spec']:
            spec = s
    if spec is None:
        print('no spec %s for %s' % (blob['spec'], prop))
        return 3
    signal.signal(signal.SIGALRM, _alarm)
    sys.argv = ['xmc']
    hist = untuple(blob['history'])
    out = sys.stdout
    devnull = open(os.devnull, 'w')
    sys.stdout = devnull
    sys.stderr_orig = sys.stderr
    sys.stderr = devnull
    try:
        res = run_one(spec, hist)
    finally:
        sys.stdout = out
        sys.stderr = sys.stderr_orig
    atoms = res.get('atoms')
    if atoms is None:
        atoms = [a for f in res.get('fails', []) for a in f[1]]
    findings = load_findings()
    unknown = [a for a in atoms if match_finding(findings, prop, a['sig']) is None]
    if sigs_only:
        print('SIGS ' + json.dumps(sorted(a['sig'] for a in unknown)))
    else:
        print('replay %s spec=%s' % (prop, spec.name))
        print('history: %s' % json.dumps(blob['history']))
        if res.get('case') is not None:
            c = res['case']
            print('case:')
            print(c if isinstance(c, str) else json.dumps(jsonable(c), indent=1))
        for a in atoms:
            k = 'known' if a not in unknown else 'VIOLATED'
            print('  [%s] %s: %s' % (k, a['sig'], a.get('msg', '')))
        if not atoms:
            print('  property holds on this case')
    if any(a['sig'].startswith('HARNESS:') for a in unknown):
        return 3
    return 1 if unknown else 0
